#!/usr/bin/env python3
"""bin/check <property> <quick|thorough>   |   bin/check <property> --replay <file>

Decides one property: (1) regenerate Params.v from /repo, (2) re-check the
property's theorems with coqc (full .vo build, Print Assumptions parsed, no
Admitted/Axiom anywhere), (3) rebuild the harness from /repo's working tree and
run model and implementation on the same cases, comparing results and traces,
(4) apply the property's own oracle to the implementation's output.
Exit 0: property held on everything explored. Exit 1: a VIOLATION line was printed.
"""
import json, os, random, sys, time
sys.path.insert(0, os.path.dirname(os.path.abspath(__file__)))
import vlib
from vlib import log
import props

def nproofs(files):
    import re
    n = 0
    for f in files:
        p = os.path.join(vlib.COQ, f)
        if os.path.exists(p):
            txt = open(p).read()
            txt = re.sub(r"\(\*.*?\*\)", " ", txt, flags=re.S)
            n += len(re.findall(r"^\s*(?:Theorem|Lemma|Corollary|Example|Fact|Remark)\s+\w+", txt, flags=re.M))
    return n

def vo_fresh(vfile):
    v = os.path.join(vlib.COQ, vfile)
    vo = v + "o"
    return os.path.exists(vo) and os.path.getmtime(vo) >= os.path.getmtime(v)

def traces_agree(t, mtr):
    """event-by-event equality; a recording that hit the recorder's cap prints '#<steps>:capped[:labels]' and is
    compared by its step count and labels only"""
    if t == mtr:
        return True
    if t.startswith("#") and ":capped" in t and mtr.startswith("#"):
        a = t.split(":"); b = mtr.split(":")
        return a[0] == b[0] and a[2:] == b[2:]
    return False

def run_cases(P, cases, builds, want_model=True, envs=None):
    """returns dict name -> rows; 'model' -> rows.  Cases carrying cpu=<sse2|none> are run in separate
    processes with MEMCHR_VERIF_CPU set, so that the real dispatcher takes that branch.  The case list is cut
    into shards which run concurrently (model and every build), one process per shard."""
    import re
    from concurrent.futures import ThreadPoolExecutor
    os.makedirs(vlib.CASES, exist_ok=True)
    out = {}
    base = os.path.join(vlib.CASES, f"{P['id']}.{os.getpid()}")
    groups = {}
    for i, line in enumerate(cases):
        m = re.search(r"\bcpu=(\w+)", line)
        key = m.group(1) if m and m.group(1) in ("sse2", "none") else "host"
        groups.setdefault(key, []).append(i)
    jobs = int(os.environ.get("VERIF_JOBS", "16"))
    shard = max(400, (len(cases) + jobs - 1) // jobs) if not P.get("no_shard") else len(cases) + 1
    tasks = []      # (name, idxs, fn)
    counter = [0]
    def add(name, idxs, runner):
        for s in range(0, len(idxs), shard):
            counter[0] += 1
            tasks.append((name, idxs[s:s + shard], runner, f"{base}.{counter[0]}"))
    mmax = P.get("model_max_len")
    def model_runner(path, idxs):
        lines = [cases[i] for i in idxs]
        if mmax:
            lines = [(l if len(vlib.parse_case(l)[1].get("h", "")) // 2 <= mmax else "# too large for the model") for l in lines]
        vlib.write_cases(path, lines)
        try:
            return vlib.run_model(path)
        finally:
            os.remove(path)
    if want_model:
        add("model", list(range(len(cases))), model_runner)
    for name, exe, env in builds:
        for key, idxs in groups.items():
            e2 = dict(env or {})
            if key != "host":
                e2["MEMCHR_VERIF_CPU"] = key
            def runner(path, idxs, exe=exe, e2=e2):
                vlib.write_cases(path, [cases[i] for i in idxs])
                try:
                    return vlib.run_lines(exe, path, env=e2)
                finally:
                    os.remove(path)
            add(name, idxs, runner)
    def work(t):
        name, idxs, runner, path = t
        return name, idxs, runner(path, idxs)
    with ThreadPoolExecutor(max_workers=jobs) as ex:
        results = list(ex.map(work, tasks))
    model_short = False
    for name, idxs, rows in results:
        if name not in out:
            out[name] = [("MISSING", "-")] * len(cases)
        if name == "model" and len(rows) != len(idxs):
            model_short = (rows[-1] if rows else ("", ""))
            continue
        for j, i in enumerate(idxs):
            if j < len(rows):
                out[name][i] = rows[j]
    if model_short:
        out["model"] = [model_short]      # the caller reports a broken model driver
    return out

def conc_run(P, tier, seed, builds, okm, stats, violations, mismatches):
    """C15: many fresh processes, N threads released by a barrier, outputs compared with the sequential model"""
    import subprocess, re
    rng = random.Random(seed)
    base = P["gen"](tier, rng)
    shared = bytes.fromhex(vlib.parse_case(base[0])[1].get("x", ""))
    nproc = int(os.environ.get("VERIF_C15_PROCS", "150" if tier == "quick" else "3000"))
    os.makedirs(vlib.CASES, exist_ok=True)
    files = {}
    for cpu in ("", "sse2", "none"):
        lines = [base[0]] + [(l + (f" cpu={cpu}" if cpu and l.split()[0] in ("find", "rfind", "count", "iter", "mm", "sfind", "srfind", "siter") else "")) for l in base[1:]]
        path = os.path.join(vlib.CASES, f"{P['id']}.{os.getpid()}.conc.{cpu or 'host'}")
        vlib.write_cases(path, lines)
        files[cpu] = (path, lines, vlib.run_model(path) if okm else None)
    dist = {}
    try:
        for r in range(nproc):
            n = [2, 4, 8, 16, 64][r % 5]
            cpu = ["", "sse2", "none"][(r // 5) % 3]
            bname, exe, _ = builds[r % len(builds)]
            path, lines, mrows = files[cpu]
            env = dict(os.environ)
            if cpu:
                env["MEMCHR_VERIF_CPU"] = cpu
            p = subprocess.run([exe, "--conc", path, str(n)], stdout=subprocess.PIPE, stderr=subprocess.PIPE, env=env, timeout=600, text=True, errors="replace")
            dist[f"{n} threads"] = dist.get(f"{n} threads", 0) + 1
            rows = {}
            for line in p.stdout.splitlines():
                parts = line.split("\t")
                if len(parts) == 3:
                    rows[int(parts[0])] = (parts[1], parts[2])
            for i, line in enumerate(lines):
                if i == 0:
                    continue
                op, kv = vlib.parse_case(line)
                res, tr = rows.get(i, (f"CRASH({p.returncode})", "-"))
                t, flags = vlib.split_trace(tr)
                stats["evaluations"] += 1
                cres = vlib.canon_res(res)
                m = gens_oracle_c15(op, kv, cres, t, flags, shared)
                if res.startswith("CRASH") or res == "MISSING":
                    m = m or f"process with {n} threads died or lost a result: {res}"
                stats["oracle_checked"] += 1
                if m:
                    violations.append((f"[{n} threads, cpu={cpu or 'host'}, process {r}] " + m, line,
                                       dict(build=bname, impl=res, threads=n, cpu=cpu, process=r), exe, None))
                if mrows is not None and i < len(mrows):
                    mres, mtr = mrows[i]
                    if "release" in bname and vlib.debug_only_panic(mres):
                        continue
                    stats["compared_results"] += 1
                    if vlib.canon_res(mres) != cres:
                        mismatches.append((f"result mismatch [{bname}, {n} threads]: impl={res} model={mres}", line))
                    elif t != "?" and (t != "-" or mtr != "-"):
                        if op in ("find", "rfind", "count", "iter", "mm"):
                            stats["compared_traces"] += 1
                            if mtr != t:
                                mismatches.append((f"trace mismatch [{bname}, {n} threads]: impl={t} model={mtr}", line))
    finally:
        for (path, _, _) in files.values():
            try:
                os.remove(path)
            except OSError:
                pass
    return base, dist, nproc

def gens_oracle_c15(op, kv, res, t, flags, shared):
    import gens
    return gens.oracle_c15(op, kv, res, t, flags, shared)

def shrink(P, line, exe, env, msg0):
    """greedy shrinking of the byte-string fields of a failing case while the oracle still fails"""
    op, kv = vlib.parse_case(line)
    fields = [k for k in P.get("shrink_fields", []) if k in kv]
    if not fields:
        return line, msg0
    def fails(kv2):
        l2 = op + " " + " ".join(f"{k}={v}" for k, v in kv2.items())
        path = os.path.join(vlib.CASES, f"{P['id']}.{os.getpid()}.shrink")
        vlib.write_cases(path, [l2])
        try:
            rows = vlib.run_lines(exe, path, env=env, timeout=120)
        finally:
            os.remove(path)
        res, tr = rows[0]
        if "BadCase" in res:
            return None, None     # the shrunk line is no longer a well-formed case (e.g. an aliasing needle cut out of its haystack)
        t, fl = vlib.split_trace(tr)
        try:
            m = P["oracle"](op, kv2, vlib.canon_res(res), t, fl)
        except Exception:
            return None, None
        return (l2, m) if m else (None, None)
    best, bestmsg = line, msg0
    budget = 200
    progress = True
    while progress and budget > 0:
        progress = False
        for f in fields:
            b = bytes.fromhex(kv[f])
            n = len(b)
            cuts = []
            step = max(1, n // 2)
            while step >= 1:
                for s in range(0, n, step):
                    cuts.append((s, min(n, s + step)))
                step //= 2
                if len(cuts) > 40:
                    break
            for (s, e) in cuts:
                if budget <= 0:
                    break
                budget -= 1
                nb = b[:s] + b[e:]
                kv2 = dict(kv); kv2[f] = nb.hex()
                l2, m = fails(kv2)
                if l2:
                    kv = kv2; best, bestmsg = l2, m
                    progress = True
                    break
    return best, bestmsg

def main():
    if len(sys.argv) < 3:
        print(__doc__); sys.exit(2)
    pid = sys.argv[1]
    if pid not in props.PROPS:
        print(f"unknown property {pid}"); sys.exit(2)
    P = props.PROPS[pid]
    if sys.argv[2] == "--replay":
        return replay(P, sys.argv[3])
    tier = sys.argv[2]
    if tier not in ("quick", "thorough"):
        tier = os.environ.get("VERIF_TIER", "quick")
    seed = int(os.environ.get("VERIF_SEED", "20261001"))
    t0 = time.time()
    os.makedirs(vlib.BUILD, exist_ok=True)
    broken = []       # (kind, name, detail): proof obligations / correspondences that no longer check
    violations = []   # (message, case line, details)

    # ---- 1. constants translator
    ok, msg = vlib.gen_params()
    log(msg)
    if not ok:
        broken.append(("translator", "tools/gen_params.py", msg))

    # ---- 2. proofs
    forb = vlib.coq_forbidden_scan()
    if forb:
        broken.append(("proof", "forbidden vernacular", "; ".join(forb[:10])))
    targets = [f + "o" for f in props.MODEL_FILES] + [f + "o" for f in P["coq_files"]]
    cb = vlib.coq_build(["-k"] + targets)
    closed, axioms = vlib.parse_assumptions(cb["output"])
    info = vlib.props_theorems(pid)
    props_vo_ok = vo_fresh(os.path.join("Props", pid + ".v")) and cb["ok"]
    if not props_vo_ok:
        import re
        m = re.search(r'File "([^"]+)", line (\d+).*?\n(Error:.*?)(?:\n\n|\nmake)', cb["output"], flags=re.S)
        detail = (f"{m.group(1)}:{m.group(2)} {m.group(3)[:600]}" if m else cb["output"][-800:])
        broken.append(("proof", f"Props/{pid}.v ({', '.join(info['theorems'])})", detail))
    else:
        if closed != len(info["prints"]) or axioms:
            allowed = set(P.get("allowed_axioms", []))
            extra = [a for a in axioms if a not in allowed]
            if extra or closed + len(set(axioms)) < len(info["prints"]):
                broken.append(("proof", "Print Assumptions", f"closed={closed} of {len(info['prints'])}; axioms={axioms}"))
        missing = [t for t in info["theorems"] if t not in info["prints"]]
        if missing:
            broken.append(("proof", "Print Assumptions missing for", ",".join(missing)))
        for name, stmt in P.get("pinned", {}).items():
            pass
    # ---- 2b. translated kernels: regenerate Gen/Code<G>.v from the source and re-prove Gen/Tie<G>.v
    tie_info = {}
    groups = P.get("tie_groups", [])
    if groups:
        import re
        gc = vlib.gen_code(groups)
        okg = [g for g in groups if gc[g][0]]
        for g in groups:
            if not gc[g][0]:
                broken.append(("translator", f"tools/rs2coq.py group {g}: the source left the translated subset", gc[g][1]))
        # Gen/Run.vo (helpers of the translated-code run) depends on several Code files: keep it in step with them
        tb = vlib.coq_build(["-k"] + [f"Gen/Tie{g}.vo" for g in okg] + ["Gen/Run.vo"]) if okg else dict(ok=True, output="", wall=0)
        bad = [g for g in okg if not vo_fresh(f"Gen/Tie{g}.v")]
        for g in bad:
            m = re.search(r'File "\./Gen/(?:Tie|Code)%s\.v", line (\d+).*?\n(Error:.*?)(?:\n\n|\nmake)' % g, tb["output"], flags=re.S)
            detail = (f"line {m.group(1)} {m.group(2)[:500]}" if m else tb["output"][-600:])
            broken.append(("proof", f"Gen/Tie{g}.v (translated source of the {g} kernels = model) no longer checks", detail))
        tnames, tprints, nfun = vlib.tie_theorems([g for g in okg if g not in bad])
        tclosed, taxioms = vlib.parse_assumptions(tb["output"])
        if taxioms or tclosed < len(tprints):
            broken.append(("proof", "Print Assumptions (Gen/Tie*.v)", f"closed={tclosed} of {len(tprints)}; axioms={taxioms}"))
        tie_info = dict(tie_groups=groups, tie_groups_translated=okg, tie_functions_translated=nfun,
                        tie_theorems=tnames, tie_print_assumptions_closed=tclosed, tie_wall_s=round(tb["wall"], 1))
        log(f"tie: groups={groups} translated={len(okg)} theorems={len(tnames)} closed={tclosed} wall={tb['wall']:.1f}s")

    chk = None
    if tier == "thorough" and props_vo_ok and not os.environ.get("VERIF_NO_COQCHK"):
        chk = vlib.coqchk(pid, extra=[f"Memchr.Gen.Tie{g}" for g in tie_info.get("tie_groups_translated", [])
                                      if vo_fresh(f"Gen/Tie{g}.v")])
        log(f"coqchk: ok={chk['ok']} axioms={chk['axioms']} wall={chk['wall']:.0f}s")
        if not chk["ok"] or chk["axioms"] or chk["type_in_type"] or chk["unsafe"]:
            broken.append(("proof", "coqchk (independent checker)", f"ok={chk['ok']} axioms={chk['axioms']} {chk['tail'][-300:]}"))
    obligations = nproofs(P["coq_files"])
    discharged = nproofs([f for f in P["coq_files"] if vo_fresh(f)]) if cb["ok"] else nproofs([f for f in P["coq_files"] if vo_fresh(f) and not f.startswith("Props/")])
    log(f"coq: ok={cb['ok']} obligations={obligations} discharged={discharged} closed={closed} wall={cb['wall']:.1f}s")

    # ---- 3. model + harness builds
    okm, msgm = vlib.build_model()
    log(msgm)
    if not okm:
        broken.append(("correspondence", "model extraction", msgm[-600:]))
    builds = []
    for b in P.get("builds", ["debug", "release"]):
        prof = "release" if "release" in b else "debug"
        feats = None
        if "+alloconly" in b:
            feats = ["alloc"]
        elif "+nofeatures" in b:
            feats = []
        xflags = "-Ctarget-feature=+avx2" if "+avx2" in b else ""
        okb, exe = vlib.harness_build(profile=prof, hooks=not b.startswith("plain"), features=feats, extra_rustflags=xflags)
        if not okb:
            # the repository no longer builds: nothing can be said; report as broken correspondence
            broken.append(("correspondence", f"harness build ({b})", exe[-800:]))
            if P.get("runner") != "conc" and ("Send" in exe or "Sync" in exe):
                # the finders lost Send/Sync (interior mutability): the thread runner no longer compiles.
                # Build without it so that the search for a failing input can still run.
                okb2, exe2 = vlib.harness_build(profile=prof, hooks=not b.startswith("plain"), features=feats,
                                                extra_rustflags=xflags, nothreads=True)
                if okb2:
                    builds.append((b, exe2, None))
        else:
            builds.append((b, exe, None))

    # ---- 4. cases
    rng = random.Random(seed)
    corpus = P.get("corpus", lambda: [])()
    cases = corpus + P["gen"](tier, rng)
    log(f"cases: {len(cases)}")
    stats = dict(evaluations=0, compared_results=0, compared_traces=0, oracle_checked=0)
    mismatches = []
    conc_info = None
    if P.get("runner") == "conc" and builds:
        cases, cdist, nproc = conc_run(P, tier, seed, builds, okm, stats, violations, mismatches)
        conc_info = dict(processes=nproc, thread_counts=cdist)
        outs = {}
        builds_for_loop = []
    else:
        builds_for_loop = builds
    outs = run_cases(P, cases, builds_for_loop, want_model=okm) if (builds_for_loop or (okm and not conc_info)) else {}
    model_rows = outs.get("model")
    if model_rows is not None and len(model_rows) != len(cases):
        broken.append(("correspondence", "model driver", f"{len(model_rows)} rows for {len(cases)} cases: {model_rows[-1] if model_rows else ''}"))
        model_rows = None
    distinct = set()
    dist = {}
    size_hist = {}
    def judge(cases, outs, blds, model_rows, count=True):
        for i, line in enumerate(cases):
            op, kv = vlib.parse_case(line)
            if count:
                dist[op] = dist.get(op, 0) + 1
                if P["nontrivial"](op, kv):
                    distinct.add(line)
                for key, field in (("haystack_bytes", "h"), ("needle_bytes", "x")):
                    if field in kv:
                        n_ = len(kv[field]) // 2
                        b_ = next(lbl for (lim, lbl) in ((0, "0"), (15, "1-15"), (63, "16-63"), (255, "64-255"), (4095, "256-4095"), (1 << 62, ">=4096")) if n_ <= lim)
                        size_hist.setdefault(key, {})
                        size_hist[key][b_] = size_hist[key].get(b_, 0) + 1
            for (bname, exe, env) in blds:
                res, tr = outs[bname][i]
                if res == "MISSING":
                    # the shard was abandoned after a hang (reported as CRASH(timeout) on the case that hung)
                    stats["abandoned_after_hang"] = stats.get("abandoned_after_hang", 0) + 1
                    continue
                t, flags = vlib.split_trace(tr)
                stats["evaluations"] += 1
                cres = vlib.canon_res(res)
                # oracle on the implementation's own output
                try:
                    m = P["oracle"](op, kv, cres, t, flags)
                except Exception as ex:
                    m = f"oracle error: {ex}"
                stats["oracle_checked"] += 1
                if res.startswith("CRASH") and m is None:
                    m = f"implementation crashed: {res}"
                if m:
                    violations.append((m, line, dict(build=bname, impl=res, trace=tr,
                                                     model=(model_rows[i] if model_rows else None)), exe, env))
                # behaviour that depends on the build configuration and that the model states per build (not a property
                # oracle: a difference is a broken correspondence)
                if P.get("build_expect"):
                    want = P["build_expect"](op, kv, bname)
                    if want is not None:
                        stats["compared_results"] += 1
                        if want != cres:
                            mismatches.append((f"configuration model mismatch [{bname}]: impl={res} expected={want}", line))
                        continue
                # correspondence with the model
                if model_rows is not None:
                    mres, mtr = model_rows[i]
                    if mres == "#":
                        continue
                    if P.get("canon"):
                        if mres == "n/a" or res in ("BadCase", "UnknownOp"):
                            continue
                        cres = P["canon"](op, cres); mres = P["canon"](op, mres)
                    if "release" in bname and vlib.debug_only_panic(mres):
                        # debug_assert!/overflow checks are compiled out in release builds: what the
                        # implementation does after such a point is outside the model
                        stats["skipped_debug_only"] = stats.get("skipped_debug_only", 0) + 1
                        continue
                    stats["compared_results"] += 1
                    if vlib.canon_res(mres) != cres:
                        mismatches.append((f"result mismatch [{bname}]: impl={res} model={mres}", line))
                    elif P.get("compare_trace", True) and t != "?" :
                        stats["compared_traces"] += 1
                        if not traces_agree(t, mtr):
                            mismatches.append((f"trace mismatch [{bname}]: impl={t} model={mtr}", line))
    judge(cases, outs, builds_for_loop, model_rows)

    # ---- 4a'. extraction cross-check: a sample of the cases evaluated inside Coq (vm_compute) against the extracted driver
    vm_info = {}
    if P.get("vmcheck") and okm and model_rows is not None:
        import vmcheck
        vm = vmcheck.crosscheck(pid, cases, model_rows, max_cases=(P.get("vm_quick", 60) if tier == "quick" else P.get("vm_thorough", 600)))
        vm_info = dict(vm_compute_cases=vm["evaluated"], vm_compute_mismatches=len(vm["mismatches"]))
        if vm["error"]:
            broken.append(("correspondence", "vm_compute cross-check of the extracted model did not run", vm["error"][-500:]))
        elif vm["mismatches"]:
            broken.append(("correspondence", f"extracted model differs from vm_compute on {len(vm['mismatches'])} cases", vm["mismatches"][0]))
        log(f"vm_compute cross-check: {vm_info}")

    # ---- 4a''. translator validation: the translated functions, run by vm_compute, against the implementation's own output
    gen_info = {}
    if P.get("tie_groups") and builds_for_loop and not [b for b in broken if b[0] == "translator"]:
        import gencheck
        bname0 = builds_for_loop[0][0]
        gc = gencheck.crosscheck(pid, cases, outs[bname0], max_cases=(120 if tier == "quick" else 1200))
        gen_info = dict(translated_code_cases=gc["evaluated"], translated_code_mismatches=len(gc["mismatches"]), translated_code_ops=gc["ops"])
        if gc["error"]:
            broken.append(("correspondence", "run of the translated code (tools/gencheck.py) failed", gc["error"][-500:]))
        elif gc["mismatches"]:
            broken.append(("correspondence", f"translated code differs from the implementation on {len(gc['mismatches'])} cases", gc["mismatches"][0]))
        if gc["evaluated"]:
            log(f"translated-code run: {gen_info}")

    # ---- 4a. emulated NEON / simd128 builds (thorough tier): the aarch64 / wasm32 code of /repo's working tree,
    # compiled for this host with the vendor intrinsics replaced by harness/emu/*.rs, against the model's Neon / Simd128 backends
    emu_info = {}
    if (tier == "thorough" or P.get("emu_quick") or os.environ.get("VERIF_EMU")) and P.get("emu") and okm and builds_for_loop:
        import shutil
        for arch in P["emu"]:
            okb, exe, scratch = vlib.emu_build(arch)
            try:
                if not okb:
                    broken.append(("correspondence", f"emulated {arch} build", exe[-800:]))
                    continue
                ecases = vlib.emu_cases(cases, arch)
                emax = P.get("emu_max_quick", 15000) if tier == "quick" else P.get("emu_max", 400000)
                if len(ecases) > emax:
                    st_ = max(1, len(ecases) // emax)
                    ecases = ecases[::st_][:emax]
                eouts = run_cases(P, ecases, [(f"emu-{arch}", exe, None)], want_model=True)
                erows = eouts.get("model")
                if erows is None or len(erows) != len(ecases):
                    broken.append(("correspondence", f"model driver (emulated {arch})", f"{len(erows or [])} rows for {len(ecases)} cases"))
                    continue
                before = stats["compared_traces"]
                judge(ecases, eouts, [(f"emu-{arch}", exe, None)], erows, count=False)
                emu_info[f"emulated_{arch}_cases"] = len(ecases)
                emu_info[f"emulated_{arch}_traces_compared"] = stats["compared_traces"] - before
            finally:
                shutil.rmtree(scratch, ignore_errors=True)
    if mismatches:
        broken.append(("correspondence", f"{len(mismatches)} model/implementation differences", mismatches[0][0] + " on: " + mismatches[0][1][:300]))

    # ---- 4b. Tier-1 hypothesis: the Two-Way certificate, evaluated by the model for every needle of this run
    cert_stats = {}
    if P.get("cert") and okm:
        needles = sorted(set(kv.get("x", "") for kv in (vlib.parse_case(l)[1] for l in cases) if 2 <= len(kv.get("x", "")) <= 700))   # the certificate is cubic in |x|: cross-check needles up to 350 bytes
        cpath = os.path.join(vlib.CASES, f"{pid}.{os.getpid()}.cert")
        vlib.write_cases(cpath, [f"twcert x={x}" for x in needles])
        try:
            rows = vlib.run_model(cpath)
        finally:
            os.remove(cpath)
        want = {"fwd": "fwd=true", "rev": "rev=true", "both": "fwd=true,rev=true"}[P["cert"]]
        bad = [needles[i] for i, (r, _) in enumerate(rows[:len(needles)]) if want not in r]
        cert_stats = dict(certificate_needles=len(needles), certificate_failures=len(bad),
                          certificate_sample=needles[len(needles) // 2] if needles else "")
        if bad or len(rows) < len(needles):
            broken.append(("proof", "Two-Way certificate (Tier-1 hypothesis of the theorem)",
                           f"tw_cert fails for {len(bad)} needles, e.g. x={bad[0] if bad else '?'}"))

    # ---- 5. escalation: something no longer checks but no failing input yet
    if broken and not violations and builds and tier == "quick" and P.get("escalate", True):
        log("escalating: broken obligation/correspondence, searching for a failing input with the thorough generators")
        rng2 = random.Random(seed + 1)
        more = P["escalate_gen"](rng2) if P.get("escalate_gen") else P["gen"]("thorough", rng2)
        more = more[: P.get("escalate_max", 60000)]
        eb = [b for b in builds if b[0] == P.get("escalate_build")] or builds[:1]
        bname, exe, env = eb[0]
        seq = P.get("escalate_sequential", False)
        outs2 = None if seq else run_cases(P, more, eb[:1], want_model=False)
        for i, line in enumerate(more):
            op, kv = vlib.parse_case(line)
            if seq:
                # expensive cases, cheapest first: run one at a time and stop at the first failing input
                one = run_cases(P, [line], eb[:1], want_model=False)
                res, tr = one[bname][0]
            else:
                res, tr = outs2[bname][i]
            t, flags = vlib.split_trace(tr)
            stats["evaluations"] += 1
            try:
                m = P["oracle"](op, kv, vlib.canon_res(res), t, flags)
            except Exception as ex:
                m = f"oracle error: {ex}"
            if res.startswith("CRASH") and m is None:
                m = f"implementation crashed: {res}"
            if m:
                violations.append((m, line, dict(build=bname, impl=res, trace=tr), exe, env))
                break

    # ---- 6. verdict
    kf = [(k, p, rest) for (k, p, rest) in vlib.known_findings() if p == pid]
    known = [rest for (k, p, rest) in kf if k == "known"]
    rc = 0
    reported = 0
    lines_out = []
    if violations:
        # group: report the first (shrunk) violation not covered by a known finding
        seen_known = set()
        for (m, line, det, exe, env) in violations:
            kmatch = None
            for kn in known:
                key = kn.split()[0] if kn.split() else ""
                if key and key.startswith("case=") and key[5:] in line:
                    kmatch = kn
            if kmatch:
                if kmatch not in seen_known:
                    seen_known.add(kmatch)
                    lines_out.append(f"KNOWN-FINDING: property={pid} {kmatch}")
                continue
            sline, smsg = shrink(P, line, exe, env, m) if os.path.exists(exe) else (line, m)   # emulated builds are scratch
            path = vlib.write_replay(pid, "violation", dict(property=pid, kind="failing-input", message=smsg,
                                     case=sline, original_case=line, details=det,
                                     rerun=f"bin/check {pid} --replay replays/{pid}-violation.json"))
            lines_out.append(f"VIOLATION property={pid} replay={path}")
            log(f"violation: {smsg}\n  case: {sline[:400]}")
            rc = 1
            reported += 1
            break
    if broken and rc == 0:
        path = vlib.write_replay(pid, "broken", dict(property=pid, kind="no-failing-input-found",
                                 broken=[dict(kind=k, name=n, detail=d) for (k, n, d) in broken],
                                 note="a proof obligation or the model/implementation correspondence no longer checks; "
                                      "the search found no input on which the property itself fails"))
        lines_out.append(f"VIOLATION property={pid} replay={path} no-failing-input-found")
        for (k, n, d) in broken:
            log(f"broken {k}: {n}: {d[:600]}")
        rc = 1
        reported += 1

    # ---- 7. evidence
    samples = [cases[i] if len(cases[i]) < 400 else cases[i][:400] + "..." for i in
               sorted(set([0, len(cases) // 3, (2 * len(cases)) // 3, len(cases) - 1])) if cases]
    coverage = dict(
        obligations=obligations, discharged=discharged,
        checker_cmd=f"cd /verif/coq && make -f Makefile.coq -k {' '.join(P['coq_files'][-1:])}o  (coqc 8.16.1, full .vo build; Print Assumptions parsed: {closed} closed, axioms {axioms})",
        trusted_base=props.TRUSTED_BASE + P.get("trusted", []),
        theorems=info["theorems"], examples=info["examples"], statement_hash=info["statement_hash"],
        print_assumptions_closed=closed, axioms=axioms,
        params_translator_ok=ok,
        evaluations=stats["evaluations"], distinct_nontrivial=len(distinct),
        rule=P["rule"], samples=samples, op_distribution=dist, size_distribution=size_hist,
        traces_validated_against_impl=stats["compared_traces"],
        results_compared_with_model=stats["compared_results"],
        oracle_checked=stats["oracle_checked"],
        model_impl_mismatches=len(mismatches),
        builds=[b for (b, _, _) in builds],
        broken=[f"{k}: {n}" for (k, n, d) in broken],
        exhaustive=False,
    )
    coverage.update(cert_stats)
    if chk:
        coverage.update(coqchk_ok=chk["ok"], coqchk_axioms=chk["axioms"], coqchk_wall_s=round(chk["wall"]))
    coverage.update(emu_info)
    coverage.update(vm_info)
    coverage.update(tie_info)
    coverage.update(gen_info)
    if conc_info:
        coverage.update(conc_info)
    coverage.update(P.get("extra_coverage", lambda: {})())
    vlib.write_evidence(pid, tier, seed, coverage, time.time() - t0, reported, P["assumptions"])
    for l in lines_out:
        print(l)
    print(f"{pid} {tier}: {'FAIL' if rc else 'ok'}  cases={len(cases)} evaluations={stats['evaluations']} "
          f"traces_compared={stats['compared_traces']} obligations={discharged}/{obligations} wall={time.time()-t0:.1f}s")
    sys.exit(rc)

def replay(P, path):
    """re-run the recorded failing input on a fresh build of /repo's working tree (same build flavour as recorded)"""
    import re, shutil
    d = json.load(open(path))
    if d.get("kind") != "failing-input":
        print(json.dumps(d, indent=1)); sys.exit(1)
    b = (d.get("details") or {}).get("build") or "debug"
    scratch = None
    if b.startswith("emu-"):
        okb, exe, scratch = vlib.emu_build(b[4:])
    else:
        prof = "release" if "release" in b else "debug"
        feats = ["alloc"] if "+alloconly" in b else ([] if "+nofeatures" in b else None)
        okb, exe = vlib.harness_build(profile=prof, hooks=not b.startswith("plain"), features=feats,
                                      extra_rustflags="-Ctarget-feature=+avx2" if "+avx2" in b else "")
    try:
        if not okb:
            print(exe); sys.exit(2)
        os.makedirs(vlib.CASES, exist_ok=True)
        cp = os.path.join(vlib.CASES, f"replay.{os.getpid()}.cases")
        vlib.write_cases(cp, [d["case"]])
        m_ = re.search(r"\bcpu=(sse2|none)\b", d["case"])
        try:
            rows = vlib.run_lines(exe, cp, env={"MEMCHR_VERIF_CPU": m_.group(1)} if m_ else None)
        finally:
            os.remove(cp)
        op, kv = vlib.parse_case(d["case"])
        res, tr = rows[0]
        t, fl = vlib.split_trace(tr)
        m = P["oracle"](op, kv, vlib.canon_res(res), t, fl)
        if res.startswith("CRASH") and m is None:
            m = f"implementation crashed: {res}"
        print(f"build: {b}\ncase: {d['case'][:2000]}\nimpl: {res}  trace: {tr[:300]}\noracle: {m or 'satisfied'}")
        sys.exit(1 if m else 0)
    finally:
        if scratch:
            shutil.rmtree(scratch, ignore_errors=True)

if __name__ == "__main__":
    main()
