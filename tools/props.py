"""Registry: which Coq files, generators, oracles and builds decide each property."""
import gens

# model (non-proof) files every run needs for the extraction
MODEL_FILES = [
    "Params.v", "Base/Res.v", "Base/ListX.v", "Spec.v",
    "Sub/IsEqual.v", "Sub/Pair.v",
]

TRUSTED_BASE = [
    "Coq 8.16.1 kernel (coqc, full .vo build; vm_compute used only in closed Examples; no native_compute)",
    "no axioms: every Print Assumptions must say 'Closed under the global context'",
    "tools/gen_params.py (regex translator for constants/tables; fails closed)",
    "hand-written Gallina model of the routine, tied to the code by the correspondence run (results and load traces)",
    "extraction: ExtrOcamlBasic only (Extract Inductive for bool, option, unit, prod, list, sumbool, sumor); no Extract Constant; OCaml 4.13.1 ocamlopt; model/run.ml driver",
    "Rust harness (harness/), hooks in /repo guarded by cfg(memchr_verif), tools/*.py diff and oracles",
]

PROPS = {}

PROPS["C18"] = dict(
    id="C18",
    coq_files=["Sub/IsEqualProofs.v", "Props/C18.v"],
    gen=gens.gen_c18, oracle=gens.oracle_c18, nontrivial=gens.nontrivial_c18,
    shrink_fields=["x", "y"],
    builds=["debug", "release"],
    rule="is_equal/is_prefix/is_suffix on all length pairs 0..=64 (equal, and one differing byte at every position), "
         "alignments of both operands, operands flush against PROT_NONE pages on either side, seeded random; "
         "non-trivial = first operand has at least 2 bytes; distinct = distinct case lines",
    assumptions=["u32/u16 equality is modelled as equality of the loaded byte lists",
                 "the hooks report every raw load of is_equal_raw (one line before each read)"],
    trusted=["read_unaligned reads exactly the bytes the hook reports"],
)

PROPS["C19"] = dict(
    id="C19",
    coq_files=["Sub/PairProofs.v", "Props/C19.v"],
    gen=gens.gen_c19, oracle=gens.oracle_c19, nontrivial=gens.nontrivial_c19,
    shrink_fields=["x"],
    builds=["debug", "release"],
    rule="Pair::new/with_ranker on needles of length 0..=600 (single-letter, two-letter, all-distinct, rare-last, random) "
         "under rankers default/const0/const255/identity/reversed/seeded tables; Pair::with_indices over (i1,i2) grids on "
         "needles of length 0,1,2,3,255,256,300; non-trivial = needle of at least 3 bytes",
    assumptions=["the ranker is a pure function u8 -> u8 (an impure HeuristicFrequencyRank is outside the model)"],
)
