"""Registry: which Coq files, generators, oracles and builds decide each property."""
import gens

# model (non-proof) files every run needs for the extraction
MODEL_FILES = [
    "Params.v", "Base/Res.v", "Base/ListX.v", "Spec.v",
    "Base/Bits.v", "Base/Word.v", "Vec/MaskRep.v", "Mem/Bytewise.v", "Mem/Generic.v", "Mem/Swar.v", "Mem/Wrappers.v", "Mem/Iter.v",
    "Sub/IsEqual.v", "Sub/Pair.v", "Sub/RabinKarp.v", "Sub/ShiftOr.v", "Sub/PackedPair.v", "Sub/Prefilter.v",
    "Sub/TwoWay.v", "Sub/TwoWayCert.v", "Sub/Words.v", "Sub/Searcher.v", "Sub/FindIter.v",
]

TRUSTED_BASE = [
    "Coq 8.16.1 kernel (coqc, full .vo build; vm_compute used only in closed Examples; no native_compute)",
    "no axioms: every Print Assumptions must say 'Closed under the global context'",
    "tools/gen_params.py (regex translator for constants/tables; fails closed)",
    "hand-written Gallina model of the routine, tied to the code by the correspondence run (results and load traces)",
    "extraction: ExtrOcamlBasic only (Extract Inductive for bool, option, unit, prod, list, sumbool, sumor); no Extract Constant; OCaml 4.13.1 ocamlopt; model/run.ml driver",
    "Rust harness (harness/), hooks in /repo guarded by cfg(memchr_verif), tools/*.py diff and oracles",
    "extraction and driver are cross-checked, not only trusted: a sample of each run's cases is re-evaluated by vm_compute inside Coq (tools/vmcheck.py) where the property lists vm_compute_cases",
]

PROPS = {}

PROPS["C18"] = dict(
    id="C18",
    coq_files=["Sub/IsEqualProofs.v", "Props/C18.v"],
    gen=gens.gen_c18, oracle=gens.oracle_c18, nontrivial=gens.nontrivial_c18,
    shrink_fields=["x", "y"],
    builds=["debug", "release"],
    rule="is_equal/is_prefix/is_suffix on all length pairs 0..=64 (equal, and one differing byte at every position), "
         "alignments of both operands, operands flush against PROT_NONE pages on either side, seeded random; "
         "non-trivial = first operand has at least 2 bytes; distinct = distinct case lines",
    assumptions=["u32/u16 equality is modelled as equality of the loaded byte lists",
                 "the hooks report every raw load of is_equal_raw (one line before each read)"],
    trusted=["read_unaligned reads exactly the bytes the hook reports"],
)

PROPS["C19"] = dict(
    id="C19",
    coq_files=["Sub/PairProofs.v", "Props/C19.v"],
    gen=gens.gen_c19, oracle=gens.oracle_c19, nontrivial=gens.nontrivial_c19,
    shrink_fields=["x"],
    builds=["debug", "release"],
    rule="Pair::new/with_ranker on needles of length 0..=600 (single-letter, two-letter, all-distinct, rare-last, random) "
         "under rankers default/const0/const255/identity/reversed/seeded tables; Pair::with_indices over (i1,i2) grids on "
         "needles of length 0,1,2,3,255,256,300; non-trivial = needle of at least 3 bytes",
    assumptions=["the ranker is a pure function u8 -> u8 (an impure HeuristicFrequencyRank is outside the model)"],
)

MEM_PROOF_FILES = ["Base/BitsProofs.v", "Vec/MaskLaws.v", "Base/WordProofs.v", "Mem/BytewiseProofs.v",
                   "Mem/GenericProofs.v", "Mem/NoMatch.v", "Mem/SwarProofs.v", "Mem/WrappersProofs.v"]
MEM_TRUSTED = ["vector intrinsics below the lane level (_mm_cmpeq_epi8/_mm_movemask_epi8, vceqq_u8/vshrn_n_u16, u8x16_eq/u8x16_bitmask): "
               "a loaded vector is modelled as the list of its bytes, cmpeq as a lane-wise boolean map",
               "x & (BYTES-1) modelled as x mod BYTES (BYTES a power of two, ALIGN = BYTES-1 checked by the translator)",
               "NEON and simd128 instantiations are proved but not executed on this host in the quick tier"]
MEM_ASSUME = ["haystack and needle bytes are < 256 (hypothesis bytes_ok of the backend theorems)",
              "the hooks report every vector/word/byte load of the byte-search routines",
              "usize is 8 bytes in the runs (the SWAR proofs are generic in the word size)"]

def _mem(pid, gen, what):
    return dict(
        id=pid, coq_files=MEM_PROOF_FILES + [f"Props/{pid}.v"],
        gen=gen, oracle=gens.oracle_memchr, nontrivial=gens.nontrivial_memchr,
        shrink_fields=["h"], builds=["debug", "release"],
        rule=f"{what} on backends swar/sse2/avx2/top (top also with the dispatcher forced to SSE2-only and to the SWAR fallback) x "
             "arity 1..3 x lengths x start alignments x match positions at every boundary (+-1) of head chunk, unrolled loop, "
             "vector loop and overlapping tail for widths 8/16/32, plus dense patterns, haystacks flush against PROT_NONE pages "
             "and seeded random haystacks up to 4 KiB; non-trivial = haystack of at least 16 bytes (reaches vector code)",
        assumptions=MEM_ASSUME, trusted=MEM_TRUSTED,
    )

PROPS["C01"] = _mem("C01", gens.gen_c01, "memchr/memchr2/memchr3 and One/Two/Three::find")
PROPS["C02"] = _mem("C02", gens.gen_c02, "memrchr/memrchr2/memrchr3 and One/Two/Three::rfind")
PROPS["C07"] = _mem("C07", gens.gen_c07, "One::count / memchr_iter().count()")

PROPS["C06"] = dict(
    id="C06", coq_files=MEM_PROOF_FILES + ["Mem/IterProofs.v", "Props/C06.v"],
    gen=gens.gen_c06, oracle=gens.oracle_iter, nontrivial=gens.nontrivial_iter,
    shrink_fields=["h"], builds=["debug", "release"],
    rule="iterator histories: every N/B string of length <= matches+2 for every match set of every haystack of <= 6 bytes (quick; 9 thorough), "
         "plus haystacks of 16..200 bytes (1-6 vectors) with sparse/dense/two-in-one-vector matches and seeded random histories over "
         "next/next_back/size_hint(on the live iterator)/count(on a clone), for Memchr/Memchr2/Memchr3 (top, also with forced SSE2-only and "
         "fallback dispatch) and One/Two/Three::iter of swar/sse2/avx2; non-trivial = at least 2 calls on a haystack of at least 2 bytes",
    assumptions=MEM_ASSUME + ["Iterator adaptors of core (Rev, FusedIterator marker) are not modelled"],
    trusted=MEM_TRUSTED,
)
PROPS["C07"]["coq_files"] = MEM_PROOF_FILES + ["Mem/IterProofs.v", "Props/C07.v"]
PROPS["C07"]["gen"] = gens.gen_c07
PROPS["C07"]["oracle"] = gens.oracle_c07
PROPS["C07"]["nontrivial"] = gens.nontrivial_c07

SUB_TRUSTED = MEM_TRUSTED + ["u32/u16 wrap-around of the Rabin-Karp hash and Shift-Or masks is written explicitly (mod 2^32, mod 2^16) in the model"]
SUB_ASSUME = ["needle and haystack bytes are < 256", "the hooks report every raw load and loop step of the substring building blocks"]

PROPS["C12"] = dict(
    id="C12", coq_files=["SpecProofs.v", "Sub/IsEqualProofs.v", "Sub/RabinKarpProofs.v", "Sub/ShiftOrProofs.v", "Sub/PackedPairProofs.v",
                         "Sub/TwoWayPreProofs.v", "Sub/TwoWayFwdProofs.v", "Sub/TwoWayRevProofs.v", "Sub/CritFact.v", "Sub/MaxSuffixProofs.v",
                         "Sub/TwoWayTier2.v", "Sub/TwoWayTier2Rev.v", "Props/C12.v"],
    gen=gens.gen_c12_all, cert="both", oracle=gens.oracle_blocks, nontrivial=gens.nontrivial_blocks,
    shrink_fields=["h"], builds=["debug", "release"],
    rule="Rabin-Karp fwd/rev and Shift-Or on all needles <= 4 (6 thorough) x haystacks <= 8 (11) over {a,b} (and {a,b,c} thorough), structured needles "
         "(u^k, u^k v, Fibonacci, Thue-Morse, single letters, bytes equal mod 64) against haystacks built from their own factors, constructed "
         "hash collisions (2*b0+b1 equal; needles > 32 bytes whose early bytes are shifted out of the u32 hash), 15/16-byte Shift-Or needles; "
         "packed-pair find (sse2, avx2) over needles x index pairs x haystack lengths around min_haystack_len x occurrence positions; "
         "non-trivial = needle >= 2 bytes and haystack >= 4 bytes",
    assumptions=SUB_ASSUME, trusted=SUB_TRUSTED,
)
PROPS["C11"] = dict(
    id="C11", coq_files=["SpecProofs.v", "Sub/IsEqualProofs.v", "Sub/PackedPairProofs.v", "Props/C11.v"],
    gen=gens.gen_c11, oracle=gens.oracle_blocks, nontrivial=gens.nontrivial_blocks,
    shrink_fields=["h"], builds=["debug", "release"],
    rule="find_prefilter of the sse2 and avx2 packed-pair finders and of the portable finder: needles of 2..40 (300 thorough) bytes x valid and invalid "
         "index pairs (index1 > index2, offsets up to 255) x haystack lengths from min_haystack_len-1 to +80 x first occurrence at every position "
         "class (last overlapping chunk, final needle.len() bytes) with partial pair hits planted before it; non-trivial as C12",
    assumptions=SUB_ASSUME, trusted=SUB_TRUSTED,
)

PROPS["C05"] = dict(
    id="C05",
    coq_files=MEM_PROOF_FILES + ["Mem/IterProofs.v", "SpecProofs.v", "Sub/IsEqualProofs.v", "Sub/RabinKarpProofs.v", "Sub/ShiftOrProofs.v",
                                 "Sub/PackedPairProofs.v", "Sub/PortablePrefilterProofs.v", "Sub/TwoWayPreProofs.v", "Props/C05.v"],
    gen=gens.gen_c05, oracle=gens.oracle_c05, nontrivial=gens.nontrivial_c05,
    shrink_fields=["h"], builds=["debug", "release", "plain-release"],
    rule="the case families of C01/C02/C06/C07/C11/C12/C18 and Two-Way re-placed flush against PROT_NONE pages (left: under-reads fault, right: "
         "over-reads fault), every load checked against the registered slices and for alignment by the hook, plus foreign needles (argument needle "
         "different from / longer than / shorter than the construction needle, empty, longer than the haystack) for Rabin-Karp, packed-pair find "
         "and Two-Way, plus a haystack mapped at a numerically low address with an argument needle longer than its end address; a hook-free "
         "release build runs the same cases against the guard pages; non-trivial = operand of at least 4 bytes",
    assumptions=SUB_ASSUME + ["an intrinsic reads exactly the bytes the model says (width at the given pointer)",
                              "pointer provenance beyond 'stays inside the slice' is not modelled"],
    trusted=SUB_TRUSTED,
)

ALL_SUB_PROOFS = ["SpecProofs.v", "Sub/IsEqualProofs.v", "Sub/PairProofs.v", "Sub/RabinKarpProofs.v", "Sub/ShiftOrProofs.v",
                  "Sub/PackedPairProofs.v", "Sub/PortablePrefilterProofs.v", "Sub/TwoWayPreProofs.v", "Sub/TwoWayFwdProofs.v",
                  "Sub/TwoWayRevProofs.v", "Sub/CritFact.v", "Sub/MaxSuffixProofs.v", "Sub/TwoWayTier2.v", "Sub/TwoWayTier2Rev.v",
                  "Sub/SearcherProofs.v"]
TIER1 = ["Two-Way: the search loops are proved under a decidable needle certificate (Tier 1) and the certificate is proved for EVERY non-empty "
         "needle (Tier 2: Sub/MaxSuffixProofs.v, Sub/CritFact.v, Sub/TwoWayTier2.v, Sub/TwoWayTier2Rev.v), so the property theorems carry no "
         "certificate hypothesis; the run still evaluates the certificate in the extracted model for every needle it uses, as a cross-check"]

PROPS["C14"] = dict(
    id="C14", coq_files=MEM_PROOF_FILES + ["Mem/IterProofs.v"] + ALL_SUB_PROOFS + ["Props/C14.v"],
    gen=gens.gen_c14, oracle=gens.oracle_c14, nontrivial=gens.nontrivial_c14,
    shrink_fields=["h"], builds=["debug"],
    rule="the case families of C01-C12, C18, C19 in the debug profile (debug assertions + overflow checks) under catch_unwind; PrefilterState "
         "transitions driven from arbitrary states incl. skips around 2^29 and u32::MAX; packed-pair find/find_prefilter on haystack lengths "
         "min_haystack_len-3..+3 for every pair family (the documented panic must occur exactly below the minimum); non-trivial = every case",
    assumptions=SUB_ASSUME + TIER1 + ["usize additions (pos + needle.len() etc.) cannot overflow for slices (lengths <= isize::MAX); modelled in nat"],
    trusted=SUB_TRUSTED,
    compare_trace=False,
)

def _mm(pid, gen, what, cert):
    return dict(
        id=pid, coq_files=MEM_PROOF_FILES + ["Mem/IterProofs.v"] + ALL_SUB_PROOFS + [f"Props/{pid}.v"],
        gen=gen, oracle=gens.oracle_mm, nontrivial=gens.nontrivial_mm, shrink_fields=["h"],
        builds=["debug", "release"], cert=cert,
        rule=what + ": exhaustive needles <= 4 (6 thorough) x haystacks <= 9 (12) over {a,b}; structured needles (u^k, u^k v, Fibonacci, Thue-Morse, "
             "single letters, bytes equal mod 64, lengths 1..100 (300 thorough)) in haystacks built from their own factors with planted matches and "
             "near-matches; lengths around the routing thresholds 15/16 and 63/64; needles > 32 bytes in haystacks below/around the vector minimum "
             "(find_simple path); haystacks that exhaust the adaptive prefilter (>= 50 candidates < 8 bytes apart) before a late match; results, "
             "strategy labels, prefilter loads, Two-Way steps compared with the model; non-trivial = needle >= 2 bytes and haystack >= 4 bytes",
        assumptions=SUB_ASSUME + TIER1, trusted=SUB_TRUSTED + ["the union + function-pointer pairing of Searcher is modelled as an inductive strategy; checked by the strategy labels"],
    )

PROPS["C03"] = _mm("C03", gens.gen_c03, "memmem::find and Finder::find x {Auto, None} x rankers {default, const0, const255, identity, reversed} x CPU {avx2, sse2-only, none}", "fwd")
PROPS["C04"] = _mm("C04", gens.gen_c04, "memmem::rfind and FinderRev::rfind", "rev")
PROPS["C10"] = _mm("C10", gens.gen_c10, "every (needle, haystack) under all configurations (prefilter Auto/None x 5 rankers + seeded tables x 3 CPUs), answers compared across configurations", "fwd")
PROPS["C10"]["oracle"] = gens.oracle_c10

PROPS["C08"] = dict(
    id="C08", coq_files=MEM_PROOF_FILES + ["Mem/IterProofs.v"] + ALL_SUB_PROOFS + ["Sub/FindIterProofs.v", "Props/C08.v"],
    gen=gens.gen_c08, oracle=gens.oracle_c08, nontrivial=gens.nontrivial_c08, shrink_fields=["h"],
    builds=["debug", "release"], cert="both",
    rule="find_iter (size_hint before every call) and rfind_iter driven past the end (matches + 3 calls) and to the middle: self-overlapping needles "
         "(aa, aba, abab, abcabc) in repetitive haystacks, the empty needle on haystacks of 0..100 bytes, long needles whose haystack first drives "
         "the adaptive prefilter inert and then contains matches, packed-pair-range needles, plus a sample of the C03 families; prefilter Auto/None, "
         "5 rankers, 3 CPUs; non-trivial = haystack >= 4 bytes",
    assumptions=SUB_ASSUME + TIER1, trusted=SUB_TRUSTED,
)

PROPS["C16"] = dict(
    id="C16", coq_files=MEM_PROOF_FILES + ["Mem/IterProofs.v"] + ALL_SUB_PROOFS + ["Sub/FindIterProofs.v", "Props/C16.v"],
    gen=gens.gen_c16, oracle=gens.oracle_c16, nontrivial=gens.nontrivial_c16, shrink_fields=[],
    builds=["debug", "release"], cert="both", compare_trace=False,
    rule="operation histories over one Finder/FinderRev and their iterators: find/rfind over 7 haystacks per needle (one that exhausts the adaptive "
         "prefilter, early matches, no match, dense overlaps, empty, shorter than the needle), clone, as_ref, into_owned (after which the original "
         "needle buffer is overwritten), needle(), find_iter/rfind_iter with next, size_hint, clone and into_owned at arbitrary points; 10 fixed "
         "histories per needle and seeded random histories of length <= 12; 9 needles (empty, 1 byte, packed range, > 32 bytes periodic and not); "
         "non-trivial = at least 3 operations",
    assumptions=SUB_ASSUME + TIER1 + ["clone/as_ref/into_owned are identities on the model's immutable values: that the Rust implementations copy needle, "
                                      "searcher, pos and prestate is decided by the correspondence on histories"],
    trusted=SUB_TRUSTED + ["CowBytes, Clone derives and lifetimes are not modelled"],
)

PROPS["C17"] = dict(
    id="C17", coq_files=MEM_PROOF_FILES + ["Mem/IterProofs.v"] + ALL_SUB_PROOFS + ["Sub/FindIterProofs.v", "Props/C17.v"],
    gen=gens.gen_c17, oracle=gens.oracle_c17, nontrivial=gens.nontrivial_c17, shrink_fields=["h"],
    builds=["debug", "release", "plain-release+alloconly", "plain-release+nofeatures"], compare_trace=False, canon=gens.canon_c17,
    rule="allocation probe (counting #[global_allocator], armed on the calling thread around exactly one API call with pre-built inputs): "
         "memchr/memrchr 1-3, memchr iterators, memmem::find/rfind/find_iter/rfind_iter, Finder/FinderRev construction from a borrowed needle + "
         "find + full iteration, owned finders searching, Two-Way/Rabin-Karp/packed-pair blocks, Shift-Or find: must be 0; into_owned of a "
         "borrowed finder and shiftor::Finder::new: at most 1; needles of 0..100 bytes covering every strategy of the meta searcher x haystacks "
         "incl. prefilter-exhausting ones; default (std), alloc-only and no-default-features builds; the count is compared with the number of "
         "Alloc events of the model; non-trivial = haystack >= 4 bytes",
    assumptions=SUB_ASSUME + ["the model contains an Alloc event only where one was written by hand (shiftor::Finder::new); the property is decided by the probe"],
    trusted=SUB_TRUSTED + ["the counting allocator sees every heap allocation of the calling thread (GlobalAlloc alloc/realloc/alloc_zeroed)"],
)

PROPS["C09"] = dict(
    id="C09", coq_files=MEM_PROOF_FILES + ["Mem/IterProofs.v"] + ALL_SUB_PROOFS + ["Props/C09.v"],
    gen=gens.gen_c09, oracle=gens.oracle_c09, nontrivial=gens.nontrivial_c09, shrink_fields=["h"],
    builds=["debug", "release", "plain-release+alloconly", "plain-release+nofeatures", "release+avx2", "plain-release+nofeatures+avx2"], cert="rev",
    rule="one case file (samples of the C01/C02/C06/C07 grids on the dispatched top-level functions, the SWAR and SSE2 searchers, and of the C03/C04 "
         "memmem families) run through six builds: default features with hooks (debug, release), --no-default-features --features alloc, "
         "--no-default-features, and -Ctarget-feature=+avx2 with and without std; the hooked builds also with the dispatcher forced to SSE2-only and "
         "to the SWAR fallback (cases carrying cpu=); every output must equal the naive oracle and the model, hence each other; "
         "non-trivial = haystack >= 8 bytes",
    assumptions=SUB_ASSUME + ["NEON and simd128 are covered by the theorems (every arch value) and by the emulated builds of the thorough tier, not executed natively"],
    trusted=SUB_TRUSTED,
)

COST_PROOFS = ["Base/Cost.v", "Mem/CostMem.v", "Sub/CostBlocks.v", "Sub/CostTwoWay.v", "Sub/CostTwoWayAll.v", "Sub/CostTwoWaySmall.v",
               "Sub/CostPrefilter.v", "Sub/CostSearcher.v", "Sub/FindIterProofs.v", "Sub/CostHit.v", "Sub/CostIter.v"]
PROPS["C13"] = dict(
    id="C13", coq_files=MEM_PROOF_FILES + ["Mem/IterProofs.v"] + ALL_SUB_PROOFS + COST_PROOFS + ["Props/C13.v"],
    gen=gens.gen_c13, oracle=gens.oracle_c13, nontrivial=gens.nontrivial_c13, shrink_fields=[],
    builds=["debug", "release"], cert="both", model_max_len=2100, escalate_gen=gens.gen_c13_escalate, escalate_build="release", escalate_sequential=True,
    rule="step counts (loads + loop ticks recorded by the hooks) of Finder::find (prefilter Auto/None, CPUs avx2/sse2/none), FinderRev::rfind and "
         "complete find_iter / rfind_iter traversals on adversarial families at sizes 2^8..2^14 (2^20 thorough): a^m in (a^(m-1)b)^r, a^(m-1)b and "
         "ba^(m-1) in a^N (m up to 4096), (ab)^k c and (abc)^k in their own near-periods, Fibonacci / Thue-Morse words, needles whose two rare bytes "
         "recur at every haystack position, a huge candidate-free prefix followed by a dense false-candidate region, plus exhaustive binary needles "
         "<= 4 in haystacks <= 8 (10); every count is checked against the bound of Props/C13.v and, for haystacks up to 2100 bytes, the whole step "
         "trace (digest) is compared with the model's, to which the theorem applies; if a proof or the correspondence breaks, needles of 2^16/2^17 "
         "bytes are run on the implementation; non-trivial = haystack >= 256 bytes",
    assumptions=SUB_ASSUME + TIER1 + [
        "an elementary step is one recorded event: a raw load (vector chunk, word, byte, memcmp piece) or a loop tick; arithmetic between them is O(1) per event by inspection of the hooks' placement",
        "FindIter / FindRevIter are not fused: a call made after a None repeats the search; 'complete traversal' means next until the first None"],
    trusted=SUB_TRUSTED,
)

PROPS["C15"] = dict(
    id="C15", coq_files=MEM_PROOF_FILES + ["Conc/DispatchProofs.v", "Props/C15.v"],
    gen=gens.gen_c15, oracle=gens.oracle_c15, nontrivial=lambda op, kv: op != "sharedneedle", shrink_fields=[],
    builds=["debug", "release"], runner="conc", escalate=False,
    rule="fresh processes (the dispatch cell starts at `detect`), N in {2,4,8,16,64} threads released by a barrier, each thread running its "
         "residue class of one case file through the seven dispatched memchr routines, the memchr iterators, memmem::find/rfind, and through ONE "
         "shared Finder / FinderRev and clones of a shared find_iter; MEMCHR_VERIF_CPU varied over {host AVX2, sse2, none}; every output compared "
         "with the sequential model and the naive oracle; 150 processes quick, 3000 thorough; non-trivial = every case",
    assumptions=MEM_ASSUME + ["Relaxed atomics on the single dispatch cell are modelled as: a load returns some value stored so far (coherence)",
                              "data races on non-atomic memory cannot be exhibited by the model; they are only sampled at run time"],
    trusted=MEM_TRUSTED + ["the Rust memory model, `unsafe impl Send/Sync for Iter`, transmute of the function pointer"],
)

# emulated NEON / simd128 builds join the thorough tier of the properties whose cases reach architecture-specific code
for _p in ("C01", "C02", "C06", "C07", "C09", "C11", "C12", "C03", "C04", "C10", "C19"):
    PROPS[_p]["emu"] = ["neon", "simd128"]
for _p in ("C01", "C02", "C06", "C07", "C09", "C11", "C12", "C03", "C04", "C10", "C19"):
    PROPS[_p]["emu_quick"] = True          # the emulated pass costs 10-20 s: it runs in both tiers
    PROPS[_p]["emu_max_quick"] = 15000

# extraction cross-check (tools/vmcheck.py): a sample of the cases is evaluated by vm_compute inside Coq
for _p in ("C01", "C02", "C06", "C07", "C03", "C04", "C08", "C09", "C10", "C12", "C13", "C18"):
    PROPS[_p]["vmcheck"] = True
    PROPS[_p]["coq_files"] = PROPS[_p]["coq_files"] + ["Cases/Eval.v"]
PROPS["C09"]["build_expect"] = gens.build_expect_c09

# ---- translated kernels (tools/rs2coq.py -> coq/Gen/Code<G>.v, proved equal to the model in coq/Gen/Tie<G>.v):
# which groups each property's check regenerates and re-proves
TIE_GROUPS = {
    "C01": ["Mask", "Swar"], "C02": ["Mask", "Swar"], "C06": ["Mask", "Swar", "IterHint"], "C07": ["Mask", "Swar"],
    "C09": ["Mask", "Swar"], "C05": ["Mask", "Pair", "PackedPairNew"],
    "C03": ["RabinKarp", "ByteSet", "Shift", "Suffix", "TwoWayNew", "TwoWayDispatch", "TopLevel", "Prefilter", "Searcher", "Mask"],
    "C04": ["RabinKarp", "ByteSet", "Shift", "Suffix", "TwoWayNew", "TwoWayDispatch", "SearcherRev", "TopLevel", "Mask"],
    "C08": ["Prefilter", "Searcher", "IterHint", "IterNext"], "C10": ["Prefilter", "Pre", "Searcher", "Pair", "PortablePrefilter"], "C16": ["Prefilter", "Pre", "IterNext"],
    "C11": ["Mask", "Pair", "PackedPairNew", "PortablePrefilter"], "C12": ["RabinKarp", "ByteSet", "Shift", "Suffix", "TwoWayNew", "TwoWayDispatch", "Mask", "Pair", "PackedPairNew"],
    "C13": ["Searcher", "RabinKarp", "Shift", "Suffix", "Prefilter"],
    "C14": ["Prefilter", "Pre", "RabinKarp", "Swar", "ByteSet", "Mask", "Pair", "Searcher", "IterHint", "IterNext", "Shift", "Suffix", "TwoWayNew", "TwoWayDispatch", "SearcherRev", "TopLevel", "PackedPairNew", "PortablePrefilter"],
    "C19": ["Pair"],
}
for _pid, _g in TIE_GROUPS.items():
    PROPS[_pid]["tie_groups"] = _g
    PROPS[_pid].setdefault("trusted", [])
    PROPS[_pid]["trusted"] = PROPS[_pid]["trusted"] + [
        "tools/rs2coq.py (Rust-subset -> Gallina translator, fails closed) and the integer semantics of coq/Gen/Ops.v "
        "for the translated kernels (" + ", ".join(_g) + "); the tie lemmas Gen/Tie*.v are proved for all arguments"]
