#!/bin/sh
# usage: seed_verify.sh <seed-id> <worktree> <property>
# Confirms, in the scratch worktree, that the change (a) keeps the crate's test-suite green,
# (b) makes the demonstration fail, (c) the demonstration passes without it. Writes seeded/<id>/meta.json.
id=$1; wt=$2; prop=$3
out=/verif/seeded/$id
export CARGO_TARGET_DIR=$wt/target CARGO_NET_OFFLINE=true
cd $wt || exit 2
git checkout -q -- src 2>/dev/null
git apply $out/patch.diff || { echo "patch does not apply"; exit 2; }
mkdir -p examples; cp $out/demo.rs examples/demo.rs
tests=$(cargo test --workspace --no-fail-fast --offline 2>&1 | grep -E "^test result" | tr '\n' ' ')
cargo run --offline --quiet $DEMO_FLAGS --example demo > $wt/demo_with.txt 2>&1; rc_with=$?
git checkout -q -- src
cargo run --offline --quiet $DEMO_FLAGS --example demo > $wt/demo_without.txt 2>&1; rc_without=$?
python3 - "$id" "$prop" "$tests" "$rc_with" "$rc_without" "$wt" <<'PY'
import json,sys,os,re
sid,prop,tests,rcw,rcwo,wt=sys.argv[1:7]
notes=open(f"/verif/seeded/{sid}/notes.md").read()
meta=dict(id=sid, breaks_property=prop,
          needs_to_manifest=notes[:1500],
          ran=dict(test_suite_with_change=tests.strip(),
                   demo_with_change=dict(exit=int(rcw), tail=open(f"{wt}/demo_with.txt").read()[-400:]),
                   demo_without_change=dict(exit=int(rcwo), tail=open(f"{wt}/demo_without.txt").read()[-200:])),
          confirmed=(int(rcw)!=0 and int(rcwo)==0 and "failed" in tests and not re.search(r"[1-9]\d* failed", tests)))
json.dump(meta,open(f"/verif/seeded/{sid}/meta.json","w"),indent=1)
print(sid,"confirmed" if meta["confirmed"] else "NOT CONFIRMED", tests.strip()[:120], "demo with:",rcw,"without:",rcwo)
PY
