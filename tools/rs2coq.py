#!/usr/bin/env python3
"""rs2coq: translator from a small subset of Rust to Gallina.

Regenerates coq/Gen/Code<Group>.v from /repo's current source on every run.  It reads
the *text* of the scalar kernels listed in GROUPS below (loop-free integer
code, plus `for &b in slice` folds), parses them with a small recursive-descent
parser and emits one Gallina definition per Rust function over `N` with
explicit fixed-width semantics (Gen/Ops.v): plain `+ - * << >>` are the
overflow-CHECKED operations of a debug build (`res N`, `Panic Overflow`),
`wrapping_*`, `saturating_*`, `as`, `!`, `&`, `|`, `^`, comparisons are pure.
coq/Gen/Tie.v then proves, for every argument, that each generated definition
equals the corresponding definition of the hand-written model.  A change to
one of these functions therefore changes a Coq term and the tie lemma has to
be re-proved by the kernel: it does not rest on any sampled input.

Everything this script cannot read fails closed (`TieBroken`, exit 2): an
unsupported construct is reported as a broken tie, never skipped.

usage: rs2coq.py [--repo /repo] [--outdir coq/Gen] [--groups Prefilter,Mask,...]
"""
import argparse, os, re, sys

class TieBroken(Exception):
    pass

INT_BITS = {"u8": 8, "u16": 16, "u32": 32, "u64": 64, "usize": 64}

# ---------------------------------------------------------------- kernels
# (file, container regex or None for module level, struct name used as prefix,
#  [function names])
# group -> [(file, container regex or None for module level, prefix, [function names])]
GROUPS = {
  "Prefilter": [
    ("src/memmem/searcher.rs", r"impl PrefilterState \{", "PrefilterState",
     ["new", "update", "is_effective", "is_inert", "skips"])],
  "RabinKarp": [
    ("src/arch/all/rabinkarp.rs", r"impl Hash \{", "Hash", ["new", "add", "del", "roll"]),
    ("src/arch/all/rabinkarp.rs", None, "rabinkarp", ["is_fast"]),
    ("src/arch/all/rabinkarp.rs", r"impl Finder \{", "Finder", ["new"]),
    ("src/arch/all/rabinkarp.rs", r"impl FinderRev \{", "FinderRev", ["new"])],
  "Swar": [
    ("src/arch/all/memchr.rs", None, "swar", ["splat", "has_zero_byte"]),
    ("src/arch/all/memchr.rs", r"impl One \{", "One", ["new", "has_needle", "confirm"]),
    ("src/arch/all/memchr.rs", r"impl Two \{", "Two", ["new", "has_needle", "confirm"]),
    ("src/arch/all/memchr.rs", r"impl Three \{", "Three", ["new", "has_needle", "confirm"])],
  "ByteSet": [
    ("src/arch/all/twoway.rs", r"impl ApproximateByteSet \{", "ApproximateByteSet", ["new", "contains"])],
  "Mask": [
    ("src/vector.rs", r"impl SensibleMoveMask \{", "SensibleMoveMask", ["get_for_offset"]),
    ("src/vector.rs", r"impl MoveMask for SensibleMoveMask \{", "SensibleMoveMask",
     ["all_zeros_except_least_significant", "has_non_zero", "count_ones", "and", "or",
      "clear_least_significant_bit", "first_offset", "last_offset"]),
    ("src/vector.rs", r"impl NeonMoveMask \{", "NeonMoveMask", ["get_for_offset"]),
    ("src/vector.rs", r"impl MoveMask for NeonMoveMask \{", "NeonMoveMask",
     ["all_zeros_except_least_significant", "has_non_zero", "count_ones", "and", "or",
      "clear_least_significant_bit", "first_offset", "last_offset"])],
  "Pair": [
    ("src/arch/all/packedpair/mod.rs", r"impl Pair \{", "Pair", ["with_indices", "index1", "index2", "with_ranker"])],
  "Searcher": [
    ("src/memmem/searcher.rs", None, "searcher", ["do_packed_search"])],
  "Shift": [
    ("src/arch/all/twoway.rs", r"impl Shift \{", "Shift", ["forward", "reverse"])],
  "Suffix": [
    ("src/arch/all/twoway.rs", r"impl SuffixKind \{", "SuffixKind", ["cmp"]),
    ("src/arch/all/twoway.rs", r"impl Suffix \{", "Suffix", ["forward", "reverse"])],
  "TwoWayNew": [
    ("src/arch/all/twoway.rs", r"impl Finder \{", "Finder", ["new"]),
    ("src/arch/all/twoway.rs", r"impl FinderRev \{", "FinderRev", ["new"])],
  "PackedPairNew": [
    ("src/arch/generic/packedpair.rs", r"impl<V: Vector> Finder<V> \{", "PPFinder", ["new"])],
  "PortablePrefilter": [
    ("src/arch/all/packedpair/mod.rs", r"impl Finder \{", "PFinder", ["find_prefilter"])],
  "TwoWayDispatch": [
    ("src/arch/all/twoway.rs", r"impl Finder \{", "Finder", ["find_with_prefilter"]),
    ("src/arch/all/twoway.rs", r"impl FinderRev \{", "FinderRev", ["rfind"])],
  "Pre": [
    ("src/memmem/searcher.rs", r"impl<'a> Pre<'a> \{", "Pre", ["find", "is_effective"])],
  "TopLevel": [
    ("src/memmem/mod.rs", None, "memmem", ["find", "rfind"])],
  "SearcherRev": [
    ("src/memmem/searcher.rs", r"impl SearcherRev \{", "SearcherRev", ["new", "rfind"])],
  "IterNext": [
    ("src/memmem/mod.rs", r"impl<'h, 'n> Iterator for FindIter<'h, 'n> \{", "FindIter", ["next"]),
    ("src/memmem/mod.rs", r"impl<'h, 'n> Iterator for FindRevIter<'h, 'n> \{", "FindRevIter", ["next"])],
  "IterHint": [
    ("src/memmem/mod.rs", r"impl<'h, 'n> Iterator for FindIter<'h, 'n> \{", "FindIter", ["size_hint"]),
    ("src/arch/generic/memchr.rs", r"impl<'h> Iter<'h> \{", "Iter", ["size_hint"])],
}

# Views: structs that hold pointers / other structs are seen through the fields the kernels use.
# name -> (file, [(field, type as the kernel sees it)], {aliased expression: field})
# Every viewed field must exist in the struct definition in the source (checked).
VIEWS = {
    "FindIter": ("src/memmem/mod.rs", [("haystack", "&[u8]"), ("pos", "usize"), ("needle", "&[u8]")],
                 {"self.finder.needle()": "needle"}, ["haystack", "pos", "finder"]),
    "Iter": ("src/arch/generic/memchr.rs", [("start", "usize"), ("end", "usize")], {}, ["start", "end"]),
    "FindRevIter": ("src/memmem/mod.rs", [("haystack", "&[u8]"), ("pos", "Option<usize>")], {}, ["haystack", "pos", "finder"]),
}
VIEWS["PPFinder"] = ("src/arch/generic/packedpair.rs",
                     [("pair", "Pair"), ("v1", "u8"), ("v2", "u8"), ("min_haystack_len", "usize")], {},
                     ["pair", "v1", "v2", "min_haystack_len"])
VIEWS["Pre"] = ("src/memmem/searcher.rs", [("prestate", "PrefilterState")], {}, ["prestate", "prestrat"])
VIEWS["PFinder"] = ("src/arch/all/packedpair/mod.rs", [("pair", "Pair"), ("byte1", "u8"), ("byte2", "u8")], {},
                    ["pair", "byte1", "byte2"])
VIEW_STRUCT_NAME = {"PPFinder": "Finder", "PFinder": "Finder"}      # the Rust name of a view whose Coq name differs
STRUCT_ALIAS = {"PackedPairNew": {"Finder": "PPFinder"}}
# Oracles: calls of code that is NOT translated (the searchers themselves) become function parameters of the
# generated definition; the tie lemma quantifies over every oracle that agrees with the model's search.
# (container, fn) -> {rendered receiver + "." + method: (parameter name, [indices of the arguments passed on], result type)}
ORACLES = {
    ("FindIter", "next"): {"self.finder.searcher.find": ("o_find", [1], "Option<usize>", "list N -> option N")},
    ("FindRevIter", "next"): {"self.finder.rfind": ("o_rfind", [0], "Option<usize>", "list N -> option N")},
    # the one-shot functions: the Rabin-Karp finder is built by translated code, its search and the whole
    # `Finder::new(needle).find(haystack)` are oracles; ("recv",) passes the receiver value, ("inner", i) the i-th
    # argument of the call that produced the receiver
    ("memmem", "find"): {
        "rabinkarp::Finder::new().find": ("o_rk_find", [("recv",), 0], "Option<usize>", "CodeRabinKarp.Finder -> list N -> option N"),
        "Finder::new().find": ("o_finder_find", [("inner", 0), 0], "Option<usize>", "list N -> list N -> option N")},
    ("memmem", "rfind"): {
        "rabinkarp::FinderRev::new().rfind": ("o_rk_rfind", [("recv",), 0], "Option<usize>", "CodeRabinKarp.FinderRev -> list N -> option N"),
        "FinderRev::new().rfind": ("o_finder_rfind", [("inner", 0), 0], "Option<usize>", "list N -> list N -> option N")},
    ("PFinder", "find_prefilter"): {"memchr": ("o_memchr", [0, 1], "Option<usize>", "N -> list N -> option N")},
    ("Finder", "find_with_prefilter"): {
        "self.find_small_imp": ("o_small", [3], "Option<usize>", "N -> option N"),
        "self.find_large_imp": ("o_large", [3], "Option<usize>", "N -> option N")},
    ("FinderRev", "rfind"): {
        "self.rfind_small_imp": ("o_rsmall", [2], "Option<usize>", "N -> option N"),
        "self.rfind_large_imp": ("o_rlarge", [2], "Option<usize>", "N -> option N")},
    ("Pre", "find"): {"self.prestrat.find": ("o_prefilter", [0], "Option<usize>", "list N -> option N")},
    ("SearcherRev", "rfind"): {
        "crate::memrchr": ("o_memrchr", [0, 1], "Option<usize>", "N -> list N -> option N"),
        "self.rabinkarp.rfind": ("o_rk_rfind", [0], "Option<usize>", "list N -> option N"),
        "finder.rfind": ("o_tw_rfind", [0], "Option<usize>", "list N -> option N")},
}

# structs whose definitions are read from the source: name -> file
STRUCTS = {
    "Prefilter": {"PrefilterState": "src/memmem/searcher.rs"},
    "RabinKarp": {"Hash": "src/arch/all/rabinkarp.rs", "Finder": "src/arch/all/rabinkarp.rs", "FinderRev": "src/arch/all/rabinkarp.rs"},
    "Swar": {"One": "src/arch/all/memchr.rs", "Two": "src/arch/all/memchr.rs", "Three": "src/arch/all/memchr.rs"},
    "ByteSet": {"ApproximateByteSet": "src/arch/all/twoway.rs"},
    "Mask": {"SensibleMoveMask": "src/vector.rs", "NeonMoveMask": "src/vector.rs"},
    "Pair": {"Pair": "src/arch/all/packedpair/mod.rs"},
    "Searcher": {},
    "IterHint": {},
    "IterNext": {},
    "SearcherRev": {"SearcherRev": "src/memmem/searcher.rs"},
    "TopLevel": {},
    "Pre": {},
    "TwoWayDispatch": {},
    "PortablePrefilter": {},
    "PackedPairNew": {},
    "Shift": {},
    "Suffix": {"Suffix": "src/arch/all/twoway.rs"},
    "TwoWayNew": {"TwoWay": "src/arch/all/twoway.rs", "Finder": "src/arch/all/twoway.rs", "FinderRev": "src/arch/all/twoway.rs"},
}
# a group may call the functions and use the types of other groups (their Code<G>.v is imported, not repeated)
GROUP_IMPORTS = {"TwoWayNew": ["ByteSet", "Suffix", "Shift"], "PackedPairNew": ["Pair"], "Pre": ["Prefilter"], "PortablePrefilter": ["Pair"],
                 "TwoWayDispatch": ["TwoWayNew"]}
# Types and functions of OTHER modules used with their module path (two modules define a `FinderRev`): the generated
# file `Require`s the other group's file without importing it and uses qualified names.
# group -> (required groups, {rust type path: Coq type}, {rust call path: (Coq function, takes fuel, param types, result type)})
QUALIFIED = {
    "SearcherRev": (["TwoWayNew", "RabinKarp"],
                    {"twoway::FinderRev": "CodeTwoWayNew.FinderRev", "rabinkarp::FinderRev": "CodeRabinKarp.FinderRev"},
                    {"twoway::FinderRev::new": ("CodeTwoWayNew.rs_FinderRev_new", True, ["&[u8]"], "twoway::FinderRev"),
                     "rabinkarp::FinderRev::new": ("CodeRabinKarp.rs_FinderRev_new", False, ["&[u8]"], "rabinkarp::FinderRev"),
                     "rabinkarp::is_fast": ("CodeRabinKarp.rs_rabinkarp_is_fast", False, ["&[u8]", "&[u8]"], "bool")}),
}
QUALIFIED["TopLevel"] = (["RabinKarp"],
                         {"rabinkarp::Finder": "CodeRabinKarp.Finder", "rabinkarp::FinderRev": "CodeRabinKarp.FinderRev"},
                         {"rabinkarp::Finder::new": ("CodeRabinKarp.rs_Finder_new", False, ["&[u8]"], "rabinkarp::Finder"),
                          "rabinkarp::FinderRev::new": ("CodeRabinKarp.rs_FinderRev_new", False, ["&[u8]"], "rabinkarp::FinderRev")})
QUAL_TYPES = {}
for _g, (_r, _t, _c) in QUALIFIED.items():
    QUAL_TYPES.update(_t)
# parameters that are only handed on to oracles (their type is outside the subset); any other use fails closed
IGNORED_PARAMS = {("Finder", "find_with_prefilter"): ["pre"]}
# the vector type parameter V of the generic packed-pair finder: V::BYTES is a parameter of the generated
# definition, V::splat(b) is represented by the byte b (a vector whose lanes all hold b)
VECTOR_PARAM = "V"
# enums read from the source: group -> {name: file}
ENUMS = {"Shift": {"Shift": "src/arch/all/twoway.rs"},
         "SearcherRev": {"SearcherRevKind": "src/memmem/searcher.rs"},
         "Suffix": {"SuffixKind": "src/arch/all/twoway.rs", "SuffixOrdering": "src/arch/all/twoway.rs"}}
VIEW_GROUPS = {"IterHint": ["FindIter", "Iter"], "IterNext": ["FindIter", "FindRevIter"], "PackedPairNew": ["PPFinder"],
               "Pre": ["Pre"], "PortablePrefilter": ["PFinder"]}
# type hints for locals whose type Rust infers backwards
LOCAL_HINTS = {("ApproximateByteSet", "new", "bits"): "u64", ("PFinder", "find_prefilter", "i"): "usize",
               ("Pair", "with_ranker", "index1"): "u8", ("Pair", "with_ranker", "index2"): "u8",
               ("Suffix", "forward", "candidate_start"): "usize", ("Suffix", "forward", "offset"): "usize",
               ("Suffix", "reverse", "candidate_start"): "usize", ("Suffix", "reverse", "offset"): "usize"}

# ---------------------------------------------------------------- lexer
TOK = re.compile(r"""
    (?P<ws>\s+)
  | (?P<str>"(?:[^"\\]|\\.)*")
  | (?P<num>0x[0-9a-fA-F_]+(?:u8|u16|u32|u64|usize)?|[0-9][0-9_]*(?:u8|u16|u32|u64|usize)?)
  | (?P<id>[A-Za-z_][A-Za-z0-9_]*)
  | (?P<op><<=|>>=|::|->|=>|==|!=|<=|>=|&&|\|\||<<|>>|\+=|-=|\*=|\|=|&=|\^=|[-+*/%&|^!<>=.,;:(){}\[\]#?'])
""", re.X)

def strip_comments(src):
    out = []
    for line in src.splitlines():
        i = line.find("//")
        out.append(line if i < 0 else line[:i])
    return "\n".join(out)

def lex(text, what):
    toks, pos = [], 0
    while pos < len(text):
        m = TOK.match(text, pos)
        if not m:
            raise TieBroken(f"{what}: cannot tokenise at {text[pos:pos+30]!r}")
        pos = m.end()
        if m.lastgroup == "ws":
            continue
        toks.append((m.lastgroup, m.group()))
    return toks

def match_brace(text, i, what):
    """text[i] == '{'; index just past the matching '}'"""
    depth = 0
    for j in range(i, len(text)):
        if text[j] == "{":
            depth += 1
        elif text[j] == "}":
            depth -= 1
            if depth == 0:
                return j + 1
    raise TieBroken(f"{what}: unbalanced braces")

def container_text(src, pattern, what):
    ms = list(re.finditer(pattern, src))
    if len(ms) != 1:
        raise TieBroken(f"{what}: container {pattern!r} found {len(ms)} times (expected 1)")
    start = ms[0].end() - 1
    return src[start:match_brace(src, start, what)]

def fn_text(scope, name, what):
    ms = list(re.finditer(r"\bfn %s\s*(?:<[^>]*>)?\s*\(" % re.escape(name), scope))
    # module-level scopes can contain the name again inside `mod tests`; keep depth-1 ones
    ms = [m for m in ms if scope[:m.start()].count("{") - scope[:m.start()].count("}") <= 1]
    if len(ms) != 1:
        raise TieBroken(f"{what}: fn {name} found {len(ms)} times (expected 1)")
    i = scope.index("{", ms[0].end())
    # the '{' must belong to the fn body: skip the parameter list and return type
    depth, j = 0, ms[0].end() - 1
    while True:
        c = scope[j]
        if c == "(":
            depth += 1
        elif c == ")":
            depth -= 1
            if depth == 0:
                break
        j += 1
    i = scope.index("{", j)
    return scope[ms[0].start():match_brace(scope, i, what)]

def preprocess(text):
    # verification hook statements are not part of the algorithm
    text = re.sub(r"#\[cfg\(memchr_verif\)\]\s*[^;{]*;", "", text)
    # big-endian arm dropped, little-endian arm kept (all run targets are little endian)
    def drop_big(m):
        return ""
    while True:
        m = re.search(r'#\[cfg\(target_endian = "big"\)\]\s*\{', text)
        if not m:
            break
        end = match_brace(text, m.end() - 1, "cfg big")
        text = text[:m.start()] + text[end:]
    text = re.sub(r'#\[cfg\(target_endian = "little"\)\]', "", text)
    text = re.sub(r"#\[[^\]]*\]", "", text)
    return text

# ---------------------------------------------------------------- parser
class P:
    def __init__(self, toks, what):
        self.t, self.i, self.what = toks, 0, what
    def peek(self, k=0):
        return self.t[self.i + k][1] if self.i + k < len(self.t) else None
    def kind(self, k=0):
        return self.t[self.i + k][0] if self.i + k < len(self.t) else None
    def eat(self, s=None):
        if self.i >= len(self.t):
            raise TieBroken(f"{self.what}: unexpected end of input")
        k, v = self.t[self.i]
        if s is not None and v != s:
            raise TieBroken(f"{self.what}: expected {s!r}, found {v!r}")
        self.i += 1
        return v
    def accept(self, s):
        if self.peek() == s:
            self.i += 1
            return True
        return False

    # ---- items
    def fn(self):
        while self.peek() in ("pub", "const", "unsafe"):
            self.eat()
            if self.peek() == "(":      # pub(crate)
                self.eat("("); self.eat(); self.eat(")")
        self.eat("fn")
        name = self.eat()
        generics = []
        if self.peek() == "<":
            self.eat("<")
            while self.peek() != ">":
                g = self.eat()
                if self.accept(":"):
                    while self.peek() not in (",", ">"):
                        self.eat()
                generics.append(g)
                self.accept(",")
            self.eat(">")
        self.eat("(")
        params, selfmode = [], None
        while self.peek() != ")":
            if self.peek() == "&":
                self.eat()
                if self.accept("mut"):
                    self.eat("self"); selfmode = "mut"
                else:
                    self.eat("self"); selfmode = "ref"
            elif self.peek() == "self":
                self.eat(); selfmode = "val"
            else:
                self.accept("mut")
                pn = self.eat()
                self.eat(":")
                params.append((pn, self.type_()))
            if not self.accept(","):
                break
        self.eat(")")
        ret = "()"
        if self.accept("->"):
            ret = self.type_()
        body = self.block()
        return dict(name=name, params=params, selfmode=selfmode, ret=ret, body=body, generics=generics)

    def type_(self):
        out, depth = [], 0
        while True:
            v = self.peek()
            if v is None:
                break
            if depth == 0 and v in (",", ")", "{", "=", ";"):
                break
            if v in ("(", "<", "["):
                depth += 1
            if v in (")", ">", "]"):
                depth -= 1
            if v == ">>":
                depth -= 2
            out.append(self.eat())
        return "".join(out).replace("&'a", "&").replace("mut", "mut ")

    # ---- statements
    def block(self):
        self.eat("{")
        stmts = []
        while self.peek() != "}":
            stmts.append(self.stmt())
        self.eat("}")
        return stmts

    def stmt(self):
        v = self.peek()
        if v in ("let", "const"):
            self.eat()
            self.accept("mut")
            if self.peek() == "(":
                self.eat("(")
                names = []
                while self.peek() != ")":
                    self.accept("mut")
                    names.append(self.eat())
                    if not self.accept(","):
                        break
                self.eat(")")
                self.eat("=")
                e = self.expr()
                self.eat(";")
                return ("lettuple", names, e)
            name = self.eat()
            ty = None
            if self.accept(":"):
                ty = self.type_()
            self.eat("=")
            e = self.expr()
            self.eat(";")
            return ("let", name, ty, e)
        if v == "return":
            self.eat()
            e = None if self.peek() == ";" else self.expr()
            self.eat(";")
            return ("return", e)
        if self.kind() == "id" and self.peek(1) == "!" and v in ("trace", "debug", "info", "warn", "log"):
            self.eat(); self.eat("!"); self.eat("(")
            depth = 1
            while depth:
                t_ = self.eat()
                depth += (t_ == "(") - (t_ == ")")
            self.accept(";")
            return ("use",)
        if v == "use":
            while self.peek() != ";":
                self.eat()
            self.eat(";")
            return ("use",)
        if v == "while":
            self.eat()
            c = self.expr(nostruct=True)
            body = self.block()
            return ("while", c, body)
        if v == "loop":
            self.eat()
            body = self.block()
            return ("while", ("path", ["true"]), body)
        if v == "continue":
            self.eat(); self.eat(";")
            return ("continue",)
        if v == "match":
            e = self.primary(False)
            if self.peek() == ";":
                self.eat()
                return ("expr", e)
            if self.peek() == "}":
                return ("tail", e)
            return ("expr", e)
        if v == "for":
            self.eat()
            byref = self.accept("&")
            if self.peek() == "(":
                self.eat("(")
                var = []
                while self.peek() != ")":
                    self.accept("&"); self.accept("mut")
                    var.append(self.eat())
                    if not self.accept(","):
                        break
                self.eat(")")
            else:
                var = self.eat()
            self.eat("in")
            it = self.expr(nostruct=True)
            body = self.block()
            return ("for", var, it, body)
        if v in ("debug_assert", "assert") and self.peek(1) == "!":
            kind = self.eat(); self.eat("!"); self.eat("(")
            e = self.expr()
            self.eat(")"); self.eat(";")
            return ("assert", kind, e)
        if v in ("assert_ne", "assert_eq", "debug_assert_ne", "debug_assert_eq") and self.peek(1) == "!":
            kind = self.eat(); self.eat("!"); self.eat("(")
            a_ = self.expr(); self.eat(","); b_ = self.expr()
            self.eat(")"); self.eat(";")
            return ("assert", kind, ("bin", "!=" if kind.endswith("ne") else "==", a_, b_))
        if v == "if":
            e = self.if_()
            if self.peek() == ";":
                self.eat()
                return ("expr", e)
            if self.peek() == "}":
                return ("tail", e)
            return ("expr", e)
        e = self.expr()
        if self.peek() in ("=", "+=", "-=", "*=", "|=", "&=", "^=", "<<=", ">>="):
            op = self.eat()
            rhs = self.expr()
            self.eat(";")
            return ("assign", e, op, rhs)
        if self.accept(";"):
            return ("expr", e)
        if self.peek() == "}":
            return ("tail", e)
        raise TieBroken(f"{self.what}: unexpected token {self.peek()!r} after expression")

    def if_(self):
        self.eat("if")
        c = self.expr(nostruct=True)
        a = self.block()
        b = None
        if self.accept("else"):
            b = [("tail", self.if_())] if self.peek() == "if" else self.block()
        return ("if", c, a, b)

    # ---- expressions (Rust precedence)
    BIN = [("||",), ("&&",), ("==", "!=", "<", ">", "<=", ">="), ("|",), ("^",), ("&",),
           ("<<", ">>"), ("+", "-"), ("*", "/", "%")]

    def expr(self, nostruct=False, lvl=0):
        if lvl == len(self.BIN):
            return self.cast(nostruct)
        l = self.expr(nostruct, lvl + 1)
        while self.peek() in self.BIN[lvl]:
            op = self.eat()
            r = self.expr(nostruct, lvl + 1)
            l = ("bin", op, l, r)
        return l

    def cast(self, nostruct):
        e = self.unary(nostruct)
        while self.peek() == "as":
            self.eat()
            e = ("as", e, self.eat())
        return e

    def unary(self, nostruct):
        if self.peek() == "!":
            self.eat()
            return ("not", self.unary(nostruct))
        if self.peek() in ("&", "*"):
            self.eat()
            self.accept("mut")
            return self.unary(nostruct)          # references are transparent for values
        return self.postfix(nostruct)

    def args(self):
        self.eat("(")
        a = []
        while self.peek() != ")":
            x_ = self.expr()
            if self.peek() == "." and self.peek(1) == ".":
                self.eat("."); self.eat(".")
                x_ = ("rangefrom", x_)
            a.append(x_)
            if not self.accept(","):
                break
        self.eat(")")
        return a

    def postfix(self, nostruct):
        e = self.primary(nostruct)
        while True:
            if self.peek() == "." and self.peek(1) == ".":
                return e
            if self.peek() == ".":
                self.eat()
                name = self.eat()
                if self.peek() == "(":
                    e = ("mcall", e, name, self.args())
                else:
                    e = ("field", e, name)
            elif self.peek() == "(" and e[0] == "path":
                e = ("call", e[1], self.args())
            elif self.peek() == "?":
                self.eat("?")
                e = ("try", e)
            elif self.peek() == "[":
                self.eat("[")
                lo = hi = None
                if self.peek() == "." and self.peek(1) == ".":
                    self.eat("."); self.eat(".")
                    hi = self.expr()
                    e = ("range", e, None, hi)
                else:
                    lo = self.expr()
                    if self.peek() == "." and self.peek(1) == ".":
                        self.eat("."); self.eat(".")
                        hi = None if self.peek() == "]" else self.expr()
                        e = ("range", e, lo, hi)
                    else:
                        e = ("index", e, lo)
                self.eat("]")
            else:
                return e

    def primary(self, nostruct):
        k, v = self.kind(), self.peek()
        if k == "num":
            self.eat()
            m = re.fullmatch(r"(0x[0-9a-fA-F_]+|[0-9][0-9_]*?)(u8|u16|u32|u64|usize)?", v)
            if not m:
                raise TieBroken(f"{self.what}: bad literal {v}")
            return ("lit", int(m.group(1).replace("_", ""), 0), m.group(2))
        if v == "(":
            self.eat()
            if self.accept(")"):
                return ("tuple", [])
            e = self.expr()
            if self.peek() == ",":
                items = [e]
                while self.accept(","):
                    if self.peek() == ")":
                        break
                    items.append(self.expr())
                self.eat(")")
                return ("tuple", items)
            self.eat(")")
            return e
        if v == "{":
            return ("block", self.block())
        if v == "|":
            self.eat("|")
            names = []
            while self.peek() != "|":
                self.accept("&"); self.accept("mut")
                names.append(self.eat())
                if not self.accept(","):
                    break
            self.eat("|")
            return ("closure", names, self.expr())
        if v == "if":
            return self.if_()
        if v == "match":
            self.eat()
            scrut = self.expr(nostruct=True)
            self.eat("{")
            arms = []
            while self.peek() != "}":
                pat = self.pattern()
                if self.peek() == "if":
                    self.eat()
                    pat = ("pguard", pat, self.expr(nostruct=True))
                self.eat("=>")
                if self.peek() == "continue":
                    self.eat()
                    body = ("cont",)
                elif self.peek() == "return":
                    self.eat()
                    body = ("ret", None if self.peek() in (",", "}") else self.expr())
                else:
                    body = self.expr()
                arms.append((pat, body))
                if not self.accept(","):
                    if self.peek() != "}" and body[0] not in ("block", "if", "match"):
                        raise TieBroken(f"{self.what}: expected ',' between match arms")
            self.eat("}")
            return ("match", scrut, arms)
        if k == "id":
            path = [self.eat()]
            while self.peek() == "::":
                self.eat()
                path.append(self.eat())
            if self.peek() == "{" and not nostruct and path[-1][0].isupper():
                self.eat("{")
                fields = []
                while self.peek() != "}":
                    fn_ = self.eat()
                    if self.accept(":"):
                        fields.append((fn_, self.expr()))
                    else:
                        fields.append((fn_, ("path", [fn_])))
                    if not self.accept(","):
                        break
                self.eat("}")
                return ("struct", path, fields)
            return ("path", path)
        raise TieBroken(f"{self.what}: unexpected token {v!r} in expression")

    def pattern(self):
        k, v = self.kind(), self.peek()
        if k == "num":
            self.eat()
            return ("plit", int(v.replace("_", ""), 0))
        name = self.eat()
        if self.peek() == "::":
            path = [name]
            while self.accept("::"):
                path.append(self.eat())
            if self.peek() == "{":
                self.eat("{")
                names = []
                while self.peek() != "}":
                    self.accept("ref"); self.accept("mut")
                    names.append(self.eat())
                    if not self.accept(","):
                        break
                self.eat("}")
                return ("pstruct", path, names)
            return ("ppath", path)
        if self.peek() == "(":
            self.eat("(")
            self.accept("&"); self.accept("mut")
            inner = self.eat()
            self.eat(")")
            return ("pctor", name, inner)
        return ("pvar", name)

# ---------------------------------------------------------------- translation
class R:
    """translation result: after the monadic bindings `pre` (list of (var, res-term)), the value is
    `text`: of type T when pure, of type `res T` otherwise.  ty is the Rust type."""
    def __init__(self, text, pure, ty, pre=None):
        self.text, self.pure, self.ty, self.pre = text, pure, ty, list(pre or [])
    @property
    def simple(self):
        return self.pure and not self.pre
    def mon(self):
        t = f"(Ok {self.text})" if self.pure else self.text
        pre = self.pre
        if self.pure and pre and pre[-1][0] == self.text:     # `v <-- m;; Ok v` is m
            t, pre = pre[-1][1], pre[:-1]
        for v, m in reversed(pre):
            t = f"({v} <-- {m};;\n  {t})"
        return t

def bits_of(ty, what):
    if ty not in INT_BITS:
        raise TieBroken(f"{what}: integer type expected, found {ty!r}")
    return INT_BITS[ty]

class Tr:
    def __init__(self, structs, fnsigs, prefix, fn, what):
        self.structs, self.fnsigs, self.prefix, self.fn, self.what = structs, fnsigs, prefix, fn, what
        self.n = 0
        self.selfty = prefix if fn["selfmode"] else None
        self.aliases = VIEWS[prefix][2] if prefix in VIEWS else {}
        self.enums = {}
        self.in_loop = False
        self.loop_exits = False
        self.loop_back = None
        self.loop_oracles = {}
        self.oracles_used = {}
        self.type_consts_used = {}
        self.struct_alias = {}
        self.qual_calls = {}
        self.nloops = 0
        self.uses_fuel = False
        self.aux = []

    def fresh(self, base="t"):
        self.n += 1
        return f"{base}_{self.n}"

    def bind(self, r, k):
        """k: pure R without bindings -> R"""
        if r.pure:
            r2 = k(R(r.text, True, r.ty))
            return R(r2.text, r2.pure, r2.ty, r.pre + r2.pre)
        v = self.fresh()
        r2 = k(R(v, True, r.ty))
        return R(r2.text, r2.pure, r2.ty, r.pre + [(v, r.text)] + r2.pre)

    def bind_all(self, rs, k):
        def go(i, acc):
            if i == len(rs):
                return k(acc)
            return self.bind(rs[i], lambda p: go(i + 1, acc + [p]))
        return go(0, [])

    # ---- environment: name -> list of (coqname, type) (a stack per name)
    def lookup(self, env, name):
        if name in env and env[name]:
            return env[name][-1]
        return None

    # ---- expressions
    def expr(self, e, env, want=None):
        k = e[0]
        w = self.what
        if k == "lit":
            ty = e[2] or want
            if ty is None:
                ty = "?"
            return R(f"{e[1]}%N", True, ty)
        if k == "path":
            p = e[1]
            if len(p) == 1:
                b = self.lookup(env, p[0])
                if b:
                    return R(b[0], True, b[1])
                if p[0] == "self":
                    b = self.lookup(env, "self")
                    return R(b[0], True, b[1])
                if p[0] in ("true", "false"):
                    return R(p[0], True, "bool")
                if p[0] == "None":
                    return R("None", True, want or "Option<?>")
                owners = [en for en, vs in self.enums.items() if any(v == p[0] and not f for v, f in vs)]
                if len(owners) == 1:
                    return R(f"{owners[0]}_{p[0]}", True, owners[0])
                raise TieBroken(f"{w}: unknown name {p[0]}")
            if len(p) == 2 and p[0] in self.enums and any(v == p[1] and not f for v, f in self.enums[p[0]]):
                return R(f"{p[0]}_{p[1]}", True, p[0])
            if p == [VECTOR_PARAM, "BYTES"]:
                self.type_consts_used["V_BYTES"] = "usize"
                return R("V_BYTES", True, "usize")
            if len(p) == 2 and p[0] in INT_BITS and p[1] == "MAX":
                return R(f"(tmax {INT_BITS[p[0]]})", True, p[0])
            if len(p) == 3 and p[0] == "core" and p[1] in INT_BITS and p[2] == "MAX":
                return R(f"(tmax {INT_BITS[p[1]]})", True, p[1])
            if len(p) == 2 and p[1] == "BITS" and p[0] in INT_BITS:
                return R(f"{INT_BITS[p[0]]}%N", True, "u32")
            if len(p) == 2:   # associated constant Type::CONST of the current container
                b = self.lookup(env, "::".join(p)) or self.lookup(env, p[1])
                if b:
                    return R(b[0], True, b[1])
            raise TieBroken(f"{w}: unknown path {'::'.join(p)}")
        if k == "tuple":
            if not e[1]:
                return R("tt", True, "()")
            wants = split_tuple(want) if want and want.startswith("(") else [None] * len(e[1])
            if len(wants) != len(e[1]):
                wants = [None] * len(e[1])
            rs = [self.expr(x, env, wt) for x, wt in zip(e[1], wants)]
            return self.bind_all(rs, lambda ps: R("(" + ", ".join(p.text for p in ps) + ")", True,
                                                   "(" + ",".join(p.ty for p in ps) + ")"))
        if k == "field":
            r = self.expr(e[1], env)
            def f(p):
                st = self.structs.get(p.ty)
                if not st:
                    raise TieBroken(f"{w}: field .{e[2]} of non-struct type {p.ty}")
                for (fname, fty) in st:
                    if fname == e[2]:
                        return R(f"({p.ty}_{fname} {p.text})", True, fty)
                raise TieBroken(f"{w}: struct {p.ty} has no field {e[2]}")
            return self.bind(r, f)
        if k == "not":
            r = self.expr(e[1], env, want)
            def f(p):
                if p.ty == "bool":
                    return R(f"(negb {p.text})", True, "bool")
                return R(f"(bnot {bits_of(p.ty, w)} {p.text})", True, p.ty)
            return self.bind(r, f)
        if k == "as":
            r = self.expr(e[1], env)
            to = e[2]
            def f(p):
                if p.ty == "bool":
                    raise TieBroken(f"{w}: cast from bool")
                src = p.ty
                if src == "?":
                    return R(p.text, True, to)
                if bits_of(to, w) >= bits_of(src, w):
                    return R(p.text, True, to)
                return R(f"(wrapw {bits_of(to, w)} {p.text})", True, to)
            return self.bind(r, f)
        if k == "bin":
            return self.binop(e, env, want)
        if k == "mcall":
            return self.mcall(e, env, want)
        if k == "call":
            return self.call(e, env, want)
        if k == "struct" and len(e[1]) == 2 and e[1][0] in self.enums:
            en, var = e[1]
            vs = dict(self.enums[en])
            if var not in vs:
                raise TieBroken(f"{w}: enum {en} has no variant {var}")
            given = dict(e[2])
            if set(given) != set(f for f, _ in vs[var]):
                raise TieBroken(f"{w}: variant {en}::{var} does not list exactly its fields")
            rs = [self.expr(given[f], env, fty) for f, fty in vs[var]]
            return self.bind_all(rs, lambda ps: R(f"({en}_{var}" + "".join(" " + p.text for p in ps) + ")", True, en))
        if k == "range":
            r0 = self.expr(e[1], env)
            def fr(p0):
                if p0.ty != "&[u8]":
                    raise TieBroken(f"{w}: range indexing of type {p0.ty}")
                if e[2] is None and e[3] is not None:
                    rh = self.expr(e[3], env, "usize")
                    return self.bind(rh, lambda ph: R(f"(slice_to_chk {p0.text} {ph.text})", False, "&[u8]"))
                if e[2] is not None and e[3] is None:
                    rl = self.expr(e[2], env, "usize")
                    return self.bind(rl, lambda pl: R(f"(slice_from_chk {p0.text} {pl.text})", False, "&[u8]"))
                raise TieBroken(f"{w}: only [..n] and [n..] ranges are supported")
            return self.bind(r0, fr)
        if k == "index":
            r0 = self.expr(e[1], env)
            ri = self.expr(e[2], env, "usize")
            def fi(ps):
                if ps[0].ty != "&[u8]":
                    raise TieBroken(f"{w}: indexing of type {ps[0].ty}")
                return R(f"(idx_chk {ps[0].text} {ps[1].text})", False, "u8")
            return self.bind_all([r0, ri], fi)
        if k == "struct":
            name = self.struct_alias.get(e[1][-1], e[1][-1])
            st = self.structs.get(name)
            if not st:
                raise TieBroken(f"{w}: unknown struct {name}")
            given = dict(e[2])
            if set(given) != set(f for f, _ in st):
                raise TieBroken(f"{w}: struct literal {name} does not list exactly its fields")
            rs = [self.expr(given[f], env, fty) for f, fty in st]
            return self.bind_all(rs, lambda ps: R(f"(mk{name} " + " ".join(p.text for p in ps) + ")", True, name))
        if k == "if":
            if e[3] is None:
                raise TieBroken(f"{w}: if without else used as a value")
            c = self.expr(e[1], env, "bool")
            a = self.value_block(e[2], env, want)
            b = self.value_block(e[3], env, want)
            ty = a.ty if a.ty != "?" else b.ty
            def f(pc):
                if a.simple and b.simple:
                    return R(f"(if {pc.text} then {a.text} else {b.text})", True, ty)
                return R(f"(if {pc.text} then {a.mon()} else {b.mon()})", False, ty)
            return self.bind(c, f)
        if k == "block":
            return self.value_block(e[1], env, want)
        if k == "match":
            return self.match(e, env, want)
        raise TieBroken(f"{w}: unsupported expression {k}")

    def value_block(self, stmts, env, want):
        """a block used as a value: lets and a tail expression only"""
        env = {k_: list(v) for k_, v in env.items()}
        def go(i):
            s = stmts[i]
            if s[0] == "let" and i + 1 < len(stmts):
                r = self.expr(s[3], env, s[2])
                def f(p):
                    v = self.fresh(s[1])
                    env.setdefault(s[1], []).append((v, s[2] or p.ty))
                    rest = go(i + 1)
                    if rest.simple:
                        return R(f"(let {v} := {p.text} in {rest.text})", True, rest.ty)
                    return R(f"(let {v} := {p.text} in {rest.mon()})", False, rest.ty)
                return self.bind(r, f)
            if s[0] == "tail" and i + 1 == len(stmts):
                return self.expr(s[1], env, want)
            if s[0] == "use" and i + 1 < len(stmts):
                return go(i + 1)
            if s[0] == "assert" and i + 1 < len(stmts):
                rc_ = self.expr(s[2], env, "bool")
                def fa(pc):
                    rest = go(i + 1)
                    return R(f"(if {pc.text} then {rest.mon()} else Panic (AssertFail 0))", False, rest.ty)
                return self.bind(rc_, fa)
            raise TieBroken(f"{self.what}: unsupported statement {s[0]} in a value block")
        if not stmts:
            return R("tt", True, "()")
        return go(0)

    def binop(self, e, env, want):
        op, l, r = e[1], e[2], e[3]
        w = self.what
        if op in ("&&", "||"):
            rl = self.expr(l, env, "bool")
            rr = self.expr(r, env, "bool")
            def f(pl):
                if rr.simple:
                    return R(f"({'andb' if op == '&&' else 'orb'} {pl.text} {rr.text})", True, "bool")
                if op == "&&":
                    return R(f"(if {pl.text} then {rr.mon()} else Ok false)", False, "bool")
                return R(f"(if {pl.text} then Ok true else {rr.mon()})", False, "bool")
            return self.bind(rl, f)
        shift = op in ("<<", ">>")
        cmp_ = op in ("==", "!=", "<", ">", "<=", ">=")
        lw = None if cmp_ else want
        rl = self.expr(l, env, lw)
        if rl.ty == "?" and not shift:
            rr = self.expr(r, env, lw)
            if rr.ty != "?":
                rl = self.expr(l, env, rr.ty)
        else:
            rr = self.expr(r, env, None if shift else rl.ty)
        def f(ps):
            pl, pr = ps
            ty = pl.ty if pl.ty != "?" else pr.ty
            if cmp_:
                if pl.ty != pr.ty and "?" not in (pl.ty, pr.ty):
                    raise TieBroken(f"{w}: comparison of {pl.ty} with {pr.ty}")
                t = {"==": "N.eqb {a} {b}", "!=": "negb (N.eqb {a} {b})", "<": "N.ltb {a} {b}",
                     "<=": "N.leb {a} {b}", ">": "N.ltb {b} {a}", ">=": "N.leb {b} {a}"}[op]
                if ty == "bool":
                    t = {"==": "Bool.eqb {a} {b}", "!=": "negb (Bool.eqb {a} {b})"}[op]
                return R("(" + t.format(a=pl.text, b=pr.text) + ")", True, "bool")
            if ty == "bool":
                t = {"&": "andb", "|": "orb", "^": "xorb"}.get(op)
                if not t:
                    raise TieBroken(f"{w}: operator {op} on bool")
                return R(f"({t} {pl.text} {pr.text})", True, "bool")
            if ty == "?":
                raise TieBroken(f"{w}: cannot infer the integer type of `{op}`")
            b = bits_of(ty, w)
            if not shift and pl.ty != pr.ty and "?" not in (pl.ty, pr.ty):
                raise TieBroken(f"{w}: operator {op} on {pl.ty} and {pr.ty}")
            pure = {"&": "N.land", "|": "N.lor", "^": "N.lxor"}
            if op in pure:
                return R(f"({pure[op]} {pl.text} {pr.text})", True, ty)
            chk = {"+": "add_chk", "-": "sub_chk", "*": "mul_chk", "/": "div_chk", "%": "rem_chk",
                   "<<": "shl_chk", ">>": "shr_chk"}[op]
            return R(f"({chk} {b} {pl.text} {pr.text})", False, ty)
        return self.bind_all([rl, rr], f)

    INT_METHODS = {
        "saturating_add": ("sat_add {b} {a} {x}", 1), "saturating_sub": ("sat_sub {a} {x}", 1),
        "saturating_mul": ("sat_mul {b} {a} {x}", 1),
        "wrapping_add": ("wr_add {b} {a} {x}", 1), "wrapping_sub": ("wr_sub {b} {a} {x}", 1),
        "wrapping_mul": ("wr_mul {b} {a} {x}", 1),
    }

    def render(self, e):
        if e[0] == "path":
            return "::".join(e[1])
        if e[0] == "field":
            return self.render(e[1]) + "." + e[2]
        if e[0] == "mcall" and not e[3]:
            return self.render(e[1]) + "." + e[2] + "()"
        if e[0] == "call":
            return "::".join(e[1]) + "()"
        return "?"

    def mcall(self, e, env, want):
        recv, name, args = e[1], e[2], e[3]
        w = self.what
        if (name == "unwrap_or" and len(args) == 1 and recv[0] == "call" and len(recv[1]) == 2
                and recv[1][1] == "try_from" and recv[1][0] in INT_BITS and len(recv[2]) == 1):
            to = recv[1][0]
            rv = self.expr(recv[2][0], env)
            rd = self.expr(args[0], env, to)
            return self.bind_all([rv, rd], lambda ps: R(
                f"(if (N.leb {ps[0].text} (tmax {bits_of(to, w)})) then {ps[0].text} else {ps[1].text})", True, to))
        if (name == "unwrap" and not args and recv[0] == "call" and len(recv[1]) == 2
                and recv[1][1] == "try_from" and recv[1][0] in INT_BITS and len(recv[2]) == 1):
            to = recv[1][0]
            rv = self.expr(recv[2][0], env)
            return self.bind(rv, lambda pv: R(
                f"(if (N.leb {pv.text} (tmax {bits_of(to, w)})) then Ok {pv.text} else Panic UnwrapNone)", False, to))
        orc = ORACLES.get((self.prefix, self.fn["name"]), {}).get(self.render(recv) + "." + name)
        if orc:
            oname, idxs, oty, octy = orc
            ras = []
            for i_ in idxs:
                if i_ == ("recv",):
                    ras.append(self.expr(recv, env))
                elif isinstance(i_, tuple) and i_[0] == "inner":
                    if recv[0] != "call":
                        raise TieBroken(f"{w}: oracle receiver is not a call")
                    ras.append(self.expr(recv[2][i_[1]], env))
                else:
                    ras.append(self.expr(args[i_], env))
            self.oracles_used[oname] = octy
            return self.bind_all(ras, lambda pas: R(f"({oname}" + "".join(" " + a.text for a in pas) + ")", True, oty))
        al = self.aliases.get(self.render(e))
        if al:
            return self.expr(("field", ("path", ["self"]), al), env, want)
        # slice.len()
        rr = self.expr(recv, env, want if name.startswith(("saturating", "wrapping")) else None)
        def f(p):
            if p.ty == "fn(u8)->u8" and name == "rank" and len(args) == 1:
                ra = self.expr(args[0], env, "u8")
                return self.bind(ra, lambda pa: R(f"({p.text} {pa.text})", True, "u8"))
            if p.ty == "&[u8]" and name == "len" and not args:
                return R(f"(N.of_nat (length {p.text}))", True, "usize")
            if p.ty == "&[u8]" and name == "is_empty" and not args:
                return R(f"(N.eqb (N.of_nat (length {p.text})) 0%N)", True, "bool")
            if p.ty == "&[u8]" and name == "get" and len(args) == 1 and args[0][0] == "rangefrom":
                ra = self.expr(args[0][1], env, "usize")
                return self.bind(ra, lambda pa: R(f"(slice_from_opt {p.text} {pa.text})", True, "Option<&[u8]>"))
            if p.ty == "&[u8]" and name == "get" and len(args) == 1 and args[0][0] != "rangefrom":
                ra = self.expr(args[0], env, "usize")
                return self.bind(ra, lambda pa: R(f"(nth_error {p.text} (N.to_nat {pa.text}))", True, "Option<u8>"))
            if p.ty == "&[u8]" and name == "last" and not args:
                return R(f"(last_opt {p.text})", True, "Option<u8>")
            if p.ty == "&[u8]" and name == "split_at" and len(args) == 1:
                ra = self.expr(args[0], env, "usize")
                return self.bind(ra, lambda pa: R(f"(split_at_chk {p.text} {pa.text})", False, "(&[u8],&[u8])"))
            if p.ty.startswith("Option<") and name == "map_or" and len(args) == 2 and args[1][0] == "closure" and len(args[1][1]) == 1:
                inner = p.ty[7:-1]
                rd = self.expr(args[0], env, want)
                v_ = self.fresh(args[1][1][0])
                env2 = {k_: list(x) for k_, x in env.items()}
                env2.setdefault(args[1][1][0], []).append((v_, inner))
                rb_ = self.expr(args[1][2], env2, want)
                if not (rd.simple and rb_.simple):
                    raise TieBroken(f"{w}: map_or with effects")
                return R(f"(match {p.text} with Some {v_} => {rb_.text} | None => {rd.text} end)", True, rb_.ty)
            if p.ty.startswith("Option<") and name == "unwrap_or" and len(args) == 1:
                inner = p.ty[7:-1]
                ra = self.expr(args[0], env, inner)
                return self.bind(ra, lambda pa: R(f"(match {p.text} with Some v_ => v_ | None => {pa.text} end)", True, inner))
            if p.ty in INT_BITS or p.ty == "?":
                if p.ty == "?":
                    raise TieBroken(f"{w}: method {name} on an untyped literal")
                b = bits_of(p.ty, w)
                if name in self.INT_METHODS:
                    t, n = self.INT_METHODS[name]
                    ra = self.expr(args[0], env, p.ty)
                    return self.bind(ra, lambda pa: R("(" + t.format(b=b, a=p.text, x=pa.text) + ")", True, p.ty))
                if name in ("wrapping_shl", "wrapping_shr"):
                    ra = self.expr(args[0], env, "u32")
                    fn_ = "wr_shl" if name == "wrapping_shl" else "wr_shr"
                    return self.bind(ra, lambda pa: R(f"({fn_} {b} {p.text} {pa.text})", True, p.ty))
                if name in ("checked_add", "checked_sub") and len(args) == 1:
                    ra = self.expr(args[0], env, p.ty)
                    t = "chk_add_opt {b} {a} {x}" if name == "checked_add" else "chk_sub_opt {a} {x}"
                    return self.bind(ra, lambda pa: R("(" + t.format(b=b, a=p.text, x=pa.text) + ")", True, f"Option<{p.ty}>"))
                if name in ("max", "min") and len(args) == 1:
                    ra = self.expr(args[0], env, p.ty)
                    return self.bind(ra, lambda pa: R(f"(N.{name} {p.text} {pa.text})", True, p.ty))
                if name == "as_usize" and not args and p.ty == "usize":
                    return R(p.text, True, "usize")
                if name == "trailing_zeros" and not args:
                    return R(f"(N.of_nat (ctz {b} {p.text}))", True, "u32")
                if name == "leading_zeros" and not args:
                    return R(f"(N.of_nat (clz {b} {p.text}))", True, "u32")
                if name == "count_ones" and not args:
                    return R(f"(N.of_nat (popcount {p.text}))", True, "u32")
                raise TieBroken(f"{w}: unsupported integer method {name}")
            if p.ty in self.structs:
                sig = self.fnsigs.get((p.ty, name))
                if not sig:
                    raise TieBroken(f"{w}: call of untranslated method {p.ty}::{name}")
                ras = [self.expr(a, env, pt) for a, (_, pt) in zip(args, sig["params"])]
                if len(ras) != len(sig["params"]):
                    raise TieBroken(f"{w}: arity of {p.ty}::{name}")
                if sig["selfmode"] == "mut":
                    raise TieBroken(f"{w}: &mut self method {name} used as a value")
                return self.bind_all(ras, lambda pas: R(
                    f"(rs_{p.ty}_{name} {p.text}" + "".join(" " + a.text for a in pas) + ")", False, sig["ret"]))
            raise TieBroken(f"{w}: method {name} on type {p.ty}")
        return self.bind(rr, f)

    def call(self, e, env, want):
        path, args = e[1], e[2]
        w = self.what
        if len(path) == 2 and path[0] in INT_BITS and path[1] == "from" and len(args) == 1:
            r = self.expr(args[0], env)
            return self.bind(r, lambda p: R(p.text, True, path[0]))
        orc = ORACLES.get((self.prefix, self.fn["name"]), {}).get("::".join(path))
        if orc:
            oname, idxs, oty, octy = orc
            ras = [self.expr(args[i_], env) for i_ in idxs]
            self.oracles_used[oname] = octy
            return self.bind_all(ras, lambda pas: R(f"({oname}" + "".join(" " + a.text for a in pas) + ")", True, oty))
        q = self.qual_calls.get("::".join(path))
        if q:
            cname, takes_fuel, ptys, rty = q
            if len(args) != len(ptys):
                raise TieBroken(f"{w}: arity of {'::'.join(path)}")
            ras = [self.expr(a, env, pt) for a, pt in zip(args, ptys)]
            fuel = ""
            if takes_fuel:
                fuel = " fuel'" if self.in_loop else " fuel"
                self.uses_fuel = True
            return self.bind_all(ras, lambda pas: R(f"({cname}{fuel}" + "".join(" " + a.text for a in pas) + ")", False, rty))
        if path[-2:] in (["cmp", "max"], ["cmp", "min"]) and len(args) == 2:
            ra = self.expr(args[0], env, want)
            rb = self.expr(args[1], env, ra.ty if ra.ty != "?" else want)
            fn_ = "N.max" if path[-1] == "max" else "N.min"
            return self.bind_all([ra, rb], lambda ps: R(f"({fn_} {ps[0].text} {ps[1].text})", True,
                                                         ps[0].ty if ps[0].ty != "?" else ps[1].ty))
        if path in (["is_suffix"], ["is_prefix"]) and len(args) == 2:
            rs_ = [self.expr(a, env) for a in args]
            def fs(ps):
                if any(p.ty != "&[u8]" for p in ps):
                    raise TieBroken(f"{w}: {path[0]} on non-slices")
                return R(f"({path[0]}_l {ps[0].text} {ps[1].text})", True, "bool")
            return self.bind_all(rs_, fs)
        if path == [VECTOR_PARAM, "splat"] and len(args) == 1:
            return self.expr(args[0], env, "u8")
        if path == ["Some"] and len(args) == 1:
            inner = None
            if want and want.startswith("Option<"):
                inner = want[7:-1]
            r = self.expr(args[0], env, inner)
            return self.bind(r, lambda p: R(f"(Some {p.text})", True, f"Option<{p.ty}>"))
        name = path[-1]
        if name in self.structs and len(path) == 1:      # tuple-struct constructor
            st = self.structs[name]
            rs = [self.expr(a, env, fty) for a, (_, fty) in zip(args, st)]
            if len(rs) != len(st):
                raise TieBroken(f"{w}: constructor arity of {name}")
            return self.bind_all(rs, lambda ps: R(f"(mk{name} " + " ".join(p.text for p in ps) + ")", True, name))
        # free function or Type::assoc function among the translated ones
        key = (path[0] if len(path) == 2 else self.prefix, name)
        if len(path) == 2 and path[0] == "Self":
            key = (self.prefix, name)
        sig = self.fnsigs.get(key)
        if sig is None and len(path) == 1:
            cands = [k_ for k_ in self.fnsigs if k_[1] == name and not self.fnsigs[k_]["selfmode"]]
            if len(cands) == 1:       # a module-level function called from inside an impl
                key = cands[0]; sig = self.fnsigs[key]
        if sig and not sig["selfmode"]:
            ras = [self.expr(a, env, pt) for a, (_, pt) in zip(args, sig["params"])]
            if len(ras) != len(sig["params"]):
                raise TieBroken(f"{w}: arity of {name}")
            if "uses_fuel" not in sig:
                raise TieBroken(f"{w}: {name} is called before it is translated (order the kernels callee first)")
            fuel = ""
            if sig["uses_fuel"]:
                fuel = " fuel'" if self.in_loop else " fuel"
                self.uses_fuel = True
            return self.bind_all(ras, lambda pas: R(
                f"(rs_{key[0]}_{name}{fuel}" + "".join(" " + a.text for a in pas) + ")", False, sig["ret"]))
        raise TieBroken(f"{w}: call of untranslated function {'::'.join(path)}")

    def match(self, e, env, want):
        scrut, arms = e[1], e[2]
        w = self.what
        # match <int>::try_from(x) { Err(_) => a, Ok(y) => b }
        if scrut[0] == "call" and len(scrut[1]) == 2 and scrut[1][1] == "try_from" and scrut[1][0] in INT_BITS:
            to = scrut[1][0]
            pats = {a[0][1]: a for a in arms if a[0][0] == "pctor"}
            if set(pats) != {"Ok", "Err"} or len(arms) != 2:
                raise TieBroken(f"{w}: try_from match must have exactly Ok and Err arms")
            r = self.expr(scrut[2][0], env)
            def f(p):
                env2 = {k_: list(v) for k_, v in env.items()}
                v = self.fresh(pats["Ok"][0][2])
                env2.setdefault(pats["Ok"][0][2], []).append((v, to))
                ok = self.expr(pats["Ok"][1], env2, want)
                err = self.expr(pats["Err"][1], env, want)
                fits = f"(N.leb {p.text} (tmax {bits_of(to, w)}))"
                return R(f"(if {fits} then (let {v} := {p.text} in {ok.mon()}) else {err.mon()})", False,
                         ok.ty if ok.ty != "?" else err.ty)
            return self.bind(r, f)
        r = self.expr(scrut, env)
        def g(p):
            if p.ty.startswith("Option<"):
                inner = p.ty[7:-1]
                some = [a for a in arms if a[0][0] == "pctor" and a[0][1] == "Some"]
                none = [a for a in arms if a[0] == ("pvar", "None")]
                if len(arms) != 2 or len(some) != 1 or len(none) != 1:
                    raise TieBroken(f"{w}: match on an Option must have exactly the arms None and Some(x)")
                v = self.fresh(some[0][0][2])
                env2 = {k_: list(x) for k_, x in env.items()}
                env2.setdefault(some[0][0][2], []).append((v, inner))
                rs_ = self.expr(some[0][1], env2, want)
                rn = self.expr(none[0][1], env, want)
                ty = rs_.ty if "?" not in rs_.ty else rn.ty
                return R(f"(match {p.text} with Some {v} => {rs_.mon()} | None => {rn.mon()} end)", False, ty)
            if p.ty in self.enums:
                return self.enum_match(p, arms, env, want, lambda body, e2: self.expr(body, e2, want))
            if p.ty in INT_BITS:
                if not arms or arms[-1][0][0] != "pvar" or any(a[0][0] != "plit" for a in arms[:-1]):
                    raise TieBroken(f"{w}: integer match must be literal arms followed by one binding arm")
                v = self.fresh(arms[-1][0][1])
                env2 = {k_: list(x) for k_, x in env.items()}
                env2.setdefault(arms[-1][0][1], []).append((v, p.ty))
                last = self.expr(arms[-1][1], env2, want)
                t, ty = f"(let {v} := {p.text} in {last.mon()})", last.ty
                for a in reversed(arms[:-1]):
                    ra = self.expr(a[1], env, want)
                    t = f"(if (N.eqb {p.text} {a[0][1]}%N) then {ra.mon()} else {t})"
                    if "?" in ty:
                        ty = ra.ty
                return R(t, False, ty)
            raise TieBroken(f"{w}: unsupported match on type {p.ty}")
        return self.bind(r, g)

    def enum_match(self, p, arms, env, want, tr_body):
        """match on a value of a unit-variant enum; arms `Enum::V [if guard] => body` in source order.
        tr_body(body, env) -> R.  The arms of one variant form an if-chain that must end unguarded."""
        w = self.what
        en = p.ty
        chains = {v: [] for v, _ in self.enums[en]}
        closed = set()
        for pat, body in arms:
            guard = None
            if pat[0] == "pguard":
                guard, pat = pat[2], pat[1]
            binds = []
            if pat[0] in ("ppath", "pstruct") and len(pat[1]) == 2 and pat[1][0] == en:
                var = pat[1][1]
                if pat[0] == "pstruct":
                    binds = pat[2]
            elif pat[0] == "pvar" and pat[1] in chains:
                var = pat[1]
            else:
                raise TieBroken(f"{w}: unsupported pattern in a match on {en}")
            if var not in chains:
                raise TieBroken(f"{w}: enum {en} has no variant {var}")
            vflds = dict(self.enums[en])[var]
            if [f_ for f_, _ in vflds] != binds:
                raise TieBroken(f"{w}: pattern {en}::{var} must bind exactly the variant's fields in order")
            if var in closed:
                continue       # unreachable arm
            chains[var].append((guard, body))
            if guard is None:
                closed.add(var)
        if closed != set(chains):
            raise TieBroken(f"{w}: match on {en} is not exhaustive in the translated subset")
        branches, ty = [], "?"
        for var, vflds in self.enums[en]:
            t = None
            envv = {k_: list(x) for k_, x in env.items()}
            bnames = []
            for f_, fty in vflds:
                bn = self.fresh(f_)
                envv.setdefault(f_, []).append((bn, fty))
                bnames.append(bn)
            for guard, body in reversed(chains[var]):
                rb = tr_body(body, envv)
                if "?" in ty:
                    ty = rb.ty
                if guard is None:
                    t = rb.mon()
                else:
                    rg = self.expr(guard, envv, "bool")
                    t = self.bind(rg, lambda pg, rb=rb, t=t: R(f"(if {pg.text} then {rb.mon()} else {t})", False, rb.ty)).mon()
            branches.append(f"| {en}_{var}" + "".join(" " + b_ for b_ in bnames) + f" => {t}")
        return R(f"(match {p.text} with {' '.join(branches)} end)", False, ty)

    # ---- statements with continuation; returns monadic R computing the function result
    def finish(self, val, env):
        """the function returns val (pure R)"""
        if self.fn["selfmode"] == "mut":
            s = self.lookup(env, "self")[0]
            return R(f"(Ok ({val.text}, {s}))", False, "ret")
        return R(val.text, True, "ret")

    def stmts(self, ss, env, k):
        """k(env) -> R is what happens after the block falls off its end with unit value"""
        if not ss:
            return k(env)
        s, rest = ss[0], ss[1:]
        w = self.what
        cont = lambda env2: self.stmts(rest, env2, k)
        if s[0] == "use":
            return cont(env)
        if s[0] == "while":
            return self.while_(s, env, cont)
        if s[0] == "let" and s[3][0] == "match" and any(a[1][0] in ("ret", "cont") for a in s[3][2]):
            # let x = match opt { None => return e, Some(v) => v' };
            scr = self.expr(s[3][1], env)
            def fm(p):
                if not p.ty.startswith("Option<") or len(s[3][2]) != 2:
                    raise TieBroken(f"{w}: `let = match` with a returning arm is supported on Options only")
                inner = p.ty[7:-1]
                outs = {}
                for pat, body in s[3][2]:
                    env2 = {k_: list(x) for k_, x in env.items()}
                    if pat == ("pvar", "None"):
                        key, binder = "None", ""
                    elif pat[0] == "pctor" and pat[1] == "Some":
                        v = self.fresh(pat[2])
                        env2.setdefault(pat[2], []).append((v, inner))
                        key, binder = "Some", " " + v
                    else:
                        raise TieBroken(f"{w}: unsupported Option pattern")
                    if body[0] == "cont":
                        if not self.in_loop or self.loop_back is None:
                            raise TieBroken(f"{w}: continue outside a loop")
                        r_ = self.loop_back(env)
                    elif body[0] == "ret" and self.in_loop:
                        if not self.loop_exits or body[1] is None:
                            raise TieBroken(f"{w}: return inside a while loop")
                        r_ = self.bind(self.expr(body[1], env2, self.fn["ret"]), self.loop_return)
                    elif body[0] == "ret":
                        r_ = self.finish(R("tt", True, "()"), env2) if body[1] is None else \
                            self.bind(self.expr(body[1], env2, self.fn["ret"]), lambda pv: self.finish(pv, env2))
                    else:
                        rv = self.expr(body, env2, s[2])
                        def fl(pv, env2=env2):
                            nv = self.fresh(s[1])
                            env3 = {k_: list(x) for k_, x in env2.items()}
                            env3.setdefault(s[1], []).append((nv, s[2] or pv.ty))
                            r2 = cont(env3)
                            return R(f"(let {nv} := {pv.text} in\n  {r2.mon()})", False, "ret")
                        r_ = self.bind(rv, fl)
                    outs[key] = (binder, r_.mon())
                return R(f"(match {p.text} with Some{outs['Some'][0]} => {outs['Some'][1]} | None => {outs['None'][1]} end)", False, "ret")
            return self.bind(scr, fm)
        if s[0] == "let" and s[3][0] == "try":
            if self.in_loop and not self.loop_exits:
                raise TieBroken(f"{w}: `?` inside a loop")
            if not self.fn["ret"].startswith("Option<"):
                raise TieBroken(f"{w}: `?` in a function that does not return an Option")
            r = self.expr(s[3][1], env)
            def fq(p):
                if not p.ty.startswith("Option<"):
                    raise TieBroken(f"{w}: `?` on type {p.ty}")
                v = self.fresh(s[1])
                env2 = {k_: list(x) for k_, x in env.items()}
                env2.setdefault(s[1], []).append((v, s[2] or p.ty[7:-1]))
                r2 = cont(env2)
                rn = self.loop_return(R("None", True, self.fn["ret"])) if self.in_loop else self.finish(R("None", True, self.fn["ret"]), env)
                return R(f"(match {p.text} with Some {v} =>\n  {r2.mon()} | None => {rn.mon()} end)", False, "ret")
            return self.bind(r, fq)
        if s[0] == "assign" and s[3][0] == "try" and s[2] in ("=", "+="):
            # x = e?;  x += e?;
            tmp = "q__" + str(self.n)
            return self.stmts([("let", tmp, None, s[3]),
                               ("assign", s[1], s[2], ("path", [tmp]))] + rest, env, k)
        if s[0] == "let":
            hint = LOCAL_HINTS.get((self.prefix, self.fn["name"], s[1]))
            r = self.expr(s[3], env, s[2] or hint)
            def f(p):
                v = self.fresh(s[1])
                env2 = {k_: list(x) for k_, x in env.items()}
                ty = s[2] or (p.ty if p.ty != "?" else hint)
                if ty is None or ty == "?":
                    raise TieBroken(f"{w}: cannot infer the type of local {s[1]} (add a LOCAL_HINTS entry)")
                env2.setdefault(s[1], []).append((v, ty))
                r2 = cont(env2)
                return R(f"(let {v} := {p.text} in\n  {r2.mon()})", False, "ret")
            return self.bind(r, f)
        if s[0] == "lettuple":
            r = self.expr(s[2], env)
            def ft(p):
                if not (p.ty.startswith("(") and len(split_tuple(p.ty)) == len(s[1])):
                    raise TieBroken(f"{w}: tuple pattern does not match type {p.ty}")
                tys = split_tuple(p.ty)
                if len(tys) != 2:
                    raise TieBroken(f"{w}: only pairs can be destructured")
                tys = [LOCAL_HINTS.get((self.prefix, self.fn["name"], n_), t_) if t_ == "?" else t_ for n_, t_ in zip(s[1], tys)]
                if "?" in tys:
                    raise TieBroken(f"{w}: cannot infer the types of {s[1]} (add LOCAL_HINTS entries)")
                env2 = {k_: list(x) for k_, x in env.items()}
                vs = [self.fresh(n_) for n_ in s[1]]
                for n_, v, ty in zip(s[1], vs, tys):
                    env2.setdefault(n_, []).append((v, ty))
                r2 = cont(env2)
                return R(f"(let {vs[0]} := fst {p.text} in let {vs[1]} := snd {p.text} in\n  {r2.mon()})", False, "ret")
            return self.bind(r, ft)
        if s[0] == "continue":
            if not self.in_loop or self.loop_back is None:
                raise TieBroken(f"{w}: continue outside a loop")
            return self.loop_back(env)
        if s[0] == "return" and self.in_loop:
            if not self.loop_exits or s[1] is None:
                raise TieBroken(f"{w}: return inside a while loop")
            r = self.expr(s[1], env, self.fn["ret"])
            return self.bind(r, self.loop_return)
        if s[0] == "return":
            if s[1] is None:
                return self.finish(R("tt", True, "()"), env)
            r = self.expr(s[1], env, self.fn["ret"])
            return self.bind(r, lambda p: self.finish(p, env))
        if s[0] == "tail":
            if rest:
                raise TieBroken(f"{w}: tail expression not at the end")
            if s[1][0] == "if" and self.has_effects(s[1]):
                return self.if_stmt(s[1], env, k)
            if s[1][0] == "match" and self.match_has_effects(s[1]) and not self.in_loop:
                scr = self.expr(s[1][1], env)
                if scr.ty.startswith("Option<"):
                    return self.opt_match_tail(s[1], scr, env)
            if s[1][0] == "match" and self.match_has_effects(s[1]):
                return self.match_stmt(s[1], env, k)
            if self.in_loop:
                raise TieBroken(f"{w}: a value at the end of a loop body")
            mc = self.mut_call(s[1], env, lambda pv, env2: self.finish(pv, env2))
            if mc is not None:
                return mc
            r = self.expr(s[1], env, self.fn["ret"])
            return self.bind(r, lambda p: self.tailval(p, env, k))
        if s[0] == "assert":
            r = self.expr(s[2], env, "bool")
            def f(p):
                r2 = cont(env)
                return R(f"(if {p.text} then {r2.mon()} else Panic (AssertFail 0))", False, "ret")
            return self.bind(r, f)
        if s[0] == "assign":
            return self.assign(s, env, cont)
        if s[0] == "expr":
            e = s[1]
            if e[0] == "if":
                return self.if_stmt(e, env, cont)
            if e[0] == "match":
                return self.match_stmt(e, env, cont)
            if e[0] == "call" and e[1][-2:] == ["mem", "swap"] and len(e[2]) == 2 and \
                    all(a[0] == "path" and len(a[1]) == 1 and self.lookup(env, a[1][0]) for a in e[2]):
                n1, n2 = e[2][0][1][0], e[2][1][1][0]
                b1, b2 = self.lookup(env, n1), self.lookup(env, n2)
                env2 = {k_: list(x) for k_, x in env.items()}
                env2[n1] = env2[n1][:-1] + [(b2[0], b1[1])]
                env2[n2] = env2[n2][:-1] + [(b1[0], b2[1])]
                return cont(env2)
            pl = self.place(e[1], env) if e[0] == "mcall" else None
            if pl:
                root, fields = pl
                cur = self.lookup(env, root)
                pty = self.place_type(cur[1], fields)
                sig = self.fnsigs.get((pty, e[2]))
                if sig and sig["selfmode"] == "mut":
                    ras = [self.expr(a, env, pt) for a, (_, pt) in zip(e[3], sig["params"])]
                    if len(ras) != len(sig["params"]):
                        raise TieBroken(f"{w}: arity of {e[2]}")
                    rplace = self.expr(e[1], env)
                    def fpl(pas):
                        rv = self.fresh("rv")
                        v = self.fresh(root)
                        env2 = {k_: list(x) for k_, x in env.items()}
                        env2[root] = env2[root][:-1] + [(v, cur[1])]
                        r2 = cont(env2)
                        call = f"(rs_{pty}_{e[2]} {rplace.text}" + "".join(" " + a.text for a in pas) + ")"
                        upd = self.place_update(cur[0], cur[1], fields, f"(snd {rv})")
                        return R(f"({rv} <-- {call};;\n  let {v} := {upd} in\n  {r2.mon()})", False, "ret")
                    if not rplace.simple:
                        raise TieBroken(f"{w}: complex receiver")
                    return self.bind_all(ras, fpl)
            if e[0] == "mcall" and e[1] == ("path", ["self"]):
                sig = self.fnsigs.get((self.prefix, e[2]))
                if sig and sig["selfmode"] == "mut":
                    ras = [self.expr(a, env, pt) for a, (_, pt) in zip(e[3], sig["params"])]
                    if len(ras) != len(sig["params"]):
                        raise TieBroken(f"{w}: arity of {e[2]}")
                    def f(pas):
                        cur = self.lookup(env, "self")
                        v = self.fresh("self")
                        env2 = {k_: list(x) for k_, x in env.items()}
                        env2["self"] = env2["self"][:-1] + [(v, cur[1])]
                        r2 = cont(env2)
                        call = f"(rs_{self.prefix}_{e[2]} {cur[0]}" + "".join(" " + a.text for a in pas) + ")"
                        return R(f"(rv_{v} <-- {call};;\n  let {v} := snd rv_{v} in\n  {r2.mon()})", False, "ret")
                    return self.bind_all(ras, f)
            raise TieBroken(f"{w}: unsupported expression statement {e[0]}")
        if s[0] == "for":
            return self.for_(s, env, cont)
        raise TieBroken(f"{w}: unsupported statement {s[0]}")

    def match_has_effects(self, e):
        def eff(b):
            return any(st[0] not in ("let", "tail", "use", "assert", "lettuple") or
                       (st[0] == "tail" and st[1][0] == "if" and self.has_effects(st[1])) for st in b)
        return any(a[1][0] == "block" and eff(a[1][1]) for a in e[2])

    def scope_exit(self, env, env_after):
        """bindings after a nested block: `let`s of the block are dropped, assignments are kept"""
        env3 = {}
        for name, st in env_after.items():
            if name in env and len(st) >= len(env[name]):
                env3[name] = st[:len(env[name]) - 1] + [st[len(env[name]) - 1]]
            elif name in env:
                env3[name] = st
        return env3

    def match_stmt(self, e, env, cont):
        """match on an enum value whose arms are blocks with effects (assignments)"""
        r = self.expr(e[1], env)
        def f(p):
            if p.ty not in self.enums:
                raise TieBroken(f"{self.what}: statement match on type {p.ty}")
            def tr_body(body, env_):
                if body[0] != "block":
                    raise TieBroken(f"{self.what}: statement match arms must be blocks")
                return self.stmts(body[1], {k_: list(v) for k_, v in env_.items()},
                                  lambda env_after: cont(self.scope_exit(env, env_after)))
            return self.enum_match(p, e[2], env, None, tr_body)
        return self.bind(r, f)

    def opt_match_tail(self, e, scr, env):
        """the function's tail expression: match on an Option whose arms are values or blocks with assignments"""
        w = self.what
        def f(p):
            inner = p.ty[7:-1]
            outs = {}
            for pat, body in e[2]:
                env2 = {k_: list(x) for k_, x in env.items()}
                if pat == ("pvar", "None"):
                    key, binder = "None", ""
                elif pat[0] == "pctor" and pat[1] == "Some":
                    v = self.fresh(pat[2])
                    env2.setdefault(pat[2], []).append((v, inner))
                    key, binder = "Some", " " + v
                else:
                    raise TieBroken(f"{w}: unsupported Option pattern")
                if body[0] == "block":
                    r_ = self.stmts(body[1], env2, lambda e3: self.finish(R("tt", True, "()"), e3))
                else:
                    r_ = self.bind(self.expr(body, env2, self.fn["ret"]), lambda pv, env2=env2: self.finish(pv, env2))
                outs[key] = (binder, r_.mon())
            if set(outs) != {"Some", "None"}:
                raise TieBroken(f"{w}: match on an Option must have the arms None and Some(x)")
            return R(f"(match {p.text} with Some{outs['Some'][0]} => {outs['Some'][1]} | None => {outs['None'][1]} end)", False, "ret")
        return self.bind(scr, f)

    def assigned_vars(self, ss):
        out = []
        def add(n):
            if n not in out:
                out.append(n)
        def blk(b):
            for s in b:
                if s[0] == "assign":
                    lhs = s[1]
                    if lhs[0] == "path" and len(lhs[1]) == 1:
                        add(lhs[1][0])
                    elif lhs[0] == "field":
                        e_ = lhs
                        while e_[0] == "field":
                            e_ = e_[1]
                        if e_[0] == "path" and len(e_[1]) == 1:
                            add(e_[1][0])
                        else:
                            raise TieBroken(f"{self.what}: unsupported assignment target in a loop")
                    else:
                        raise TieBroken(f"{self.what}: unsupported assignment target in a loop")
                elif s[0] in ("expr", "tail"):
                    ex(s[1])
                elif s[0] in ("while", "for"):
                    raise TieBroken(f"{self.what}: {s[0]} inside a while loop")
                elif s[0] == "let" and s[3][0] == "try" and s[3][1][0] == "call":
                    pass
        def ex(e):
            if e[0] == "if":
                blk(e[2]); blk(e[3] or [])
            elif e[0] == "match":
                for _, body in e[2]:
                    if body[0] == "block":
                        blk(body[1])
            elif e[0] == "mcall" and e[1] == ("path", ["self"]):
                raise TieBroken(f"{self.what}: method call on self inside a while loop")
            elif e[0] == "mcall" and e[1][0] == "field":
                e_ = e[1]
                while e_[0] == "field":
                    e_ = e_[1]
                if e_[0] == "path" and len(e_[1]) == 1:
                    add(e_[1][0])
        blk(ss)
        return out

    def body_exits(self, ss):
        def ex(e):
            if not isinstance(e, tuple):
                return False
            if e and e[0] in ("try", "ret", "return"):
                return True
            return any(ex(x) if isinstance(x, tuple) else (any(ex(y) for y in x) if isinstance(x, list) else False) for x in e[1:])
        return any(ex(st) for st in ss)

    def loop_return(self, val):
        """`return val` inside a loop with exits: the loop function yields Ret val"""
        return R(f"(Ok (Ret {val.text}))", False, "ret")

    def while_(self, s, env, cont):
        """while cond { body }  ==>  a top-level Fixpoint on explicit fuel; running out of fuel is Panic OutOfFuel"""
        w = self.what
        if self.in_loop:
            raise TieBroken(f"{w}: nested while loops")
        cond, body = s[1], s[2]
        carried = [v for v in self.assigned_vars(body) if self.lookup(env, v)]
        self.nloops += 1
        lname = f"rs_{self.prefix}_{self.fn['name']}_loop{self.nloops}"
        others = [(n, st[-1]) for n, st in env.items() if st and n not in carried and "::" not in n and not st[-1][0][0].isdigit()]
        params = [(self.fresh(n), self.lookup(env, n)[1]) for n in carried]
        oparams = [(self.fresh(n), b[1]) for n, b in others]
        envl = {}
        for (n, b), (pn, pt) in zip(others, oparams):
            envl[n] = [(pn, pt)]
        for n, st in env.items():            # associated constants keep their literal values
            if n not in envl and n not in carried and st:
                envl[n] = list(st)
        for n, (pn, pt) in zip(carried, params):
            envl[n] = [(pn, pt)]
        exits = self.body_exits(body)
        if exits and self.fn["selfmode"] == "mut":
            raise TieBroken(f"{w}: return out of a loop in a &mut self function")
        self.in_loop = True
        self.loop_exits = exits
        rc = self.expr(cond, envl, "bool")
        def back(env_after):
            cur = [self.lookup(self.scope_exit(envl, env_after), n)[0] for n in carried]
            return R(f"({lname} " + " ".join(pn for pn, _ in oparams) + " fuel' " + " ".join(cur) + ")", False, "ret")
        self.loop_back = back
        rb = self.stmts(body, {k_: list(v) for k_, v in envl.items()}, back)
        self.in_loop = False
        self.loop_exits = False
        tup = "(" + ", ".join(pn for pn, _ in params) + ")" if len(params) > 1 else params[0][0]
        tty = " * ".join(coq_type(pt, self.structs, w) for _, pt in params)
        if exits:
            tty = f"ctl {coq_type(self.fn['ret'], self.structs, w)} ({tty})"
            step = self.bind(rc, lambda pc: R(f"(if {pc.text}\n  then {rb.mon()}\n  else Ok (Go {tup}))", False, "ret"))
        else:
            step = self.bind(rc, lambda pc: R(f"(if {pc.text}\n  then {rb.mon()}\n  else Ok {tup})", False, "ret"))
        onames = sorted(self.oracles_used)
        if onames:      # oracles used inside the loop are parameters of the loop function too
            otxt = " ".join(onames)
            fix_ = lambda t: t.replace(f"({lname} ", f"({lname} {otxt} ")
            step = R(fix_(step.mon()), False, "ret")
            self.loop_oracles[lname] = otxt
        binders = "".join(f"({on_} : {self.oracles_used[on_]}) " for on_ in onames) + \
                  " ".join(f"({pn} : {coq_type(pt, self.structs, w)})" for pn, pt in oparams) + " (fuel : nat) " + \
                  " ".join(f"({pn} : {coq_type(pt, self.structs, w)})" for pn, pt in params)
        self.aux.append(f"(* the while loop of {self.prefix}::{self.fn['name']}; state: {', '.join(carried)} *)\n"
                        f"Fixpoint {lname} {binders} {{struct fuel}} : res ({tty}) :=\n"
                        f"  match fuel with\n  | O => Panic OutOfFuel\n  | S fuel' =>\n  {step.mon()}\n  end.\n")
        self.uses_fuel = True
        # after the loop
        res = self.fresh("st")
        env2 = {k_: list(x) for k_, x in env.items()}
        outs = []
        for n in carried:
            v = self.fresh(n)
            env2[n] = env2[n][:-1] + [(v, self.lookup(env, n)[1])]
            outs.append(v)
        r2 = cont(env2) if cond != ("path", ["true"]) else R("(Panic OutOfFuel)", False, "ret")   # `loop {}` never falls through
        call = f"({lname} " + (self.loop_oracles.get(lname, "") + " " if self.loop_oracles.get(lname) else "") + \
               " ".join(b[0] for _, b in others) + " fuel " + " ".join(self.lookup(env, n)[0] for n in carried) + ")"
        pat = "'(" + ", ".join(outs) + ")" if len(outs) > 1 else outs[0]
        if exits:
            rv = self.fresh("ret")
            fin = self.finish(R(rv, True, self.fn["ret"]), env)
            return R(f"({res} <-- {call};;\n  match {res} with Ret {rv} => {fin.mon()} | Go {pat.lstrip(chr(39))} =>\n  {r2.mon()} end)", False, "ret")
        return R(f"({res} <-- {call};;\n  let {pat} := {res} in\n  {r2.mon()})", False, "ret")

    def mut_call(self, e, env, k):
        """place.method(args) where method takes &mut self and returns a value: k(value R, env with the place updated)"""
        w = self.what
        pl = self.place(e[1], env) if e[0] == "mcall" else None
        if not pl:
            return None
        root, fields = pl
        cur = self.lookup(env, root)
        pty = self.place_type(cur[1], fields)
        sig = self.fnsigs.get((pty, e[2]))
        if not (sig and sig["selfmode"] == "mut"):
            return None
        ras = [self.expr(a, env, pt) for a, (_, pt) in zip(e[3], sig["params"])]
        if len(ras) != len(sig["params"]):
            raise TieBroken(f"{w}: arity of {e[2]}")
        rplace = self.expr(e[1], env)
        if not rplace.simple:
            raise TieBroken(f"{w}: complex receiver")
        def f(pas):
            rv = self.fresh("rv")
            v = self.fresh(root)
            env2 = {k_: list(x) for k_, x in env.items()}
            env2[root] = env2[root][:-1] + [(v, cur[1])]
            r2 = k(R(f"(fst {rv})", True, sig["ret"]), env2)
            call = f"(rs_{pty}_{e[2]} {rplace.text}" + "".join(" " + a.text for a in pas) + ")"
            upd = self.place_update(cur[0], cur[1], fields, f"(snd {rv})")
            return R(f"({rv} <-- {call};;\n  let {v} := {upd} in\n  {r2.mon()})", False, "ret")
        return self.bind_all(ras, f)

    def tailval(self, p, env, k):
        # the value of the function body's tail expression
        return self.finish(p, env)

    def has_effects(self, e):
        """does this if-expression contain return / assignment statements?"""
        def blk(b):
            return any(s[0] in ("return", "assign", "assert", "for", "continue") or
                       (s[0] in ("expr", "tail") and s[1][0] == "if" and self.has_effects(s[1])) or
                       (s[0] == "expr" and s[1][0] == "mcall")
                       for s in b)
        return blk(e[2]) or (e[3] is not None and blk(e[3]))

    def if_stmt(self, e, env, cont, tail=False):
        c = self.expr(e[1], env, "bool")
        def f(pc):
            declared = set(env.keys())
            def after(env_after):
                # drop bindings introduced by `let` inside the branch
                env3 = {}
                for name, st in env_after.items():
                    if name in env:
                        env3[name] = st[:len(env[name])] if len(st) >= len(env[name]) else st
                        # an assignment replaced the top entry: keep the replacement
                        if len(st) >= len(env[name]):
                            env3[name] = st[:len(env[name]) - 1] + [st[len(env[name]) - 1]]
                return env3
            ka = lambda env_after: cont(self.scope_exit(env, env_after))
            a = self.stmts(e[2], {k_: list(v) for k_, v in env.items()}, ka)
            b = self.stmts(e[3] or [], {k_: list(v) for k_, v in env.items()}, ka)
            return R(f"(if {pc.text}\n  then {a.mon()}\n  else {b.mon()})", False, "ret")
        return self.bind(c, f)

    def place(self, e, env):
        """a place expression local.f1.f2...: (root name, [fields]) or None"""
        fields = []
        while e[0] == "field":
            fields.append(e[2]); e = e[1]
        if e[0] == "path" and len(e[1]) == 1 and self.lookup(env, e[1][0]) and fields:
            return e[1][0], list(reversed(fields))
        return None

    def place_update(self, root_text, root_ty, fields, newval):
        """Coq term for the root value with root.f1.f2... replaced by newval; also the type of the place"""
        w = self.what
        st = self.structs.get(root_ty)
        if not st:
            raise TieBroken(f"{w}: field of non-struct type {root_ty}")
        fty = dict(st).get(fields[0])
        if fty is None:
            raise TieBroken(f"{w}: no field {fields[0]} in {root_ty}")
        if len(fields) == 1:
            inner = newval
        else:
            inner = self.place_update(f"({root_ty}_{fields[0]} {root_text})", fty, fields[1:], newval)
        parts = [inner if fn_ == fields[0] else f"({root_ty}_{fn_} {root_text})" for fn_, _ in st]
        return f"(mk{root_ty} {' '.join(parts)})"

    def place_type(self, root_ty, fields):
        ty = root_ty
        for f_ in fields:
            st = self.structs.get(ty)
            if not st or f_ not in dict(st):
                raise TieBroken(f"{self.what}: no field {f_} in {ty}")
            ty = dict(st)[f_]
        return ty

    def assign(self, s, env, cont):
        lhs, op, rhs = s[1], s[2], s[3]
        w = self.what
        if op != "=":
            rhs = ("bin", op[:-1], lhs, rhs)
        pl = self.place(lhs, env)
        if pl and len(pl[1]) >= 2:
            root, fields = pl
            cur = self.lookup(env, root)
            r = self.expr(rhs, env, self.place_type(cur[1], fields))
            def fp(p):
                v = self.fresh(root)
                env2 = {k_: list(x) for k_, x in env.items()}
                env2[root] = env2[root][:-1] + [(v, cur[1])]
                r2 = cont(env2)
                return R(f"(let {v} := {self.place_update(cur[0], cur[1], fields, p.text)} in\n  {r2.mon()})", False, "ret")
            return self.bind(r, fp)
        # target: local variable, self.field, self.N
        if lhs[0] == "path" and len(lhs[1]) == 1:
            name = lhs[1][0]
            cur = self.lookup(env, name)
            if not cur:
                raise TieBroken(f"{w}: assignment to unknown {name}")
            r = self.expr(rhs, env, cur[1])
            def f(p):
                v = self.fresh(name)
                env2 = {k_: list(x) for k_, x in env.items()}
                env2[name] = env2[name][:-1] + [(v, cur[1])]
                r2 = cont(env2)
                return R(f"(let {v} := {p.text} in\n  {r2.mon()})", False, "ret")
            return self.bind(r, f)
        if lhs[0] == "field" and lhs[1][0] == "path" and len(lhs[1][1]) == 1 and self.lookup(env, lhs[1][1][0]):
            tgt = lhs[1][1][0]
            cur = self.lookup(env, tgt)
            st = self.structs.get(cur[1])
            fty = dict(st).get(lhs[2])
            if fty is None:
                raise TieBroken(f"{w}: no field {lhs[2]} in {cur[1]}")
            r = self.expr(rhs, env, fty)
            def f(p):
                v = self.fresh(tgt)
                env2 = {k_: list(x) for k_, x in env.items()}
                env2[tgt] = env2[tgt][:-1] + [(v, cur[1])]
                parts = [p.text if fn_ == lhs[2] else f"({cur[1]}_{fn_} {cur[0]})" for fn_, _ in st]
                r2 = cont(env2)
                return R(f"(let {v} := mk{cur[1]} {' '.join(parts)} in\n  {r2.mon()})", False, "ret")
            return self.bind(r, f)
        raise TieBroken(f"{w}: unsupported assignment target")

    def iterable(self, it, env):
        """the iterator expressions of the subset -> (Coq list term, element kind)
        kinds: 'byte' (elements are bytes) or 'indexed' (elements are (index, byte) pairs)"""
        w = self.what
        chain = []
        e = it
        while e[0] == "mcall":
            chain.append((e[2], e[3]))
            e = e[1]
        chain.reverse()
        r = self.expr(e, env)
        if not (r.simple and r.ty == "&[u8]"):
            raise TieBroken(f"{w}: for loops are supported over &[u8] values only")
        names = [c[0] for c in chain]
        if names in ([], ["iter"], ["iter", "copied"]):
            return r.text, "byte"
        if names in (["iter", "copied", "skip"], ["iter", "rev", "copied", "skip"]):
            rs_ = self.expr(chain[-1][1][0], env, "usize")
            if not rs_.simple:
                raise TieBroken(f"{w}: skip argument must be a simple value")
            base_ = r.text if "rev" not in names else f"(rev {r.text})"
            return f"(skipn (N.to_nat {rs_.text}) {base_})", "byte"
        if names == ["iter", "enumerate", "take", "skip"]:
            rt = self.expr(chain[2][1][0], env, "usize")
            rs_ = self.expr(chain[3][1][0], env, "usize")
            if not (rt.simple and rs_.simple):
                raise TieBroken(f"{w}: take/skip arguments must be simple values")
            return f"(skipn (N.to_nat {rs_.text}) (firstn (N.to_nat {rt.text}) (enumerate_l {r.text})))", "indexed"
        raise TieBroken(f"{w}: unsupported iterator chain .{'.'.join(names)}")

    def for_(self, s, env, cont):
        """for pattern in iterable { assignments to locals }  ==>  a checked left fold over a list,
        the assigned locals being the accumulator"""
        var, it, body = s[1], s[2], s[3]
        w = self.what
        ltxt, kind = self.iterable(it, env)
        if self.in_loop:
            raise TieBroken(f"{w}: for inside while")
        self.in_loop = True          # no `return` out of the body
        try:
            carried = [v for v in self.assigned_vars(body) if self.lookup(env, v)]
            if not carried:
                raise TieBroken(f"{w}: for body assigns nothing")
            accs = [(self.fresh(n), self.lookup(env, n)[1]) for n in carried]
            env2 = {k_: list(v) for k_, v in env.items()}
            for n, (a, ty) in zip(carried, accs):
                env2[n] = env2[n][:-1] + [(a, ty)]
            if kind == "byte":
                if not isinstance(var, str):
                    raise TieBroken(f"{w}: tuple pattern over bytes")
                x = self.fresh(var)
                env2.setdefault(var, []).append((x, "u8"))
                xpat = x
            else:
                if isinstance(var, str) or len(var) != 2:
                    raise TieBroken(f"{w}: enumerate() needs a pattern (i, &b)")
                xi, xb = self.fresh(var[0]), self.fresh(var[1])
                env2.setdefault(var[0], []).append((xi, "usize"))
                env2.setdefault(var[1], []).append((xb, "u8"))
                xpat = f"'({xi}, {xb})"
            def done(e3):
                cur = [self.lookup(self.scope_exit(env2, e3), n)[0] for n in carried]
                return R("(" + ", ".join(cur) + ")" if len(cur) > 1 else cur[0], True, "acc")
            bodyr = self.stmts(body, env2, done)
        finally:
            self.in_loop = False
        apat = "'(" + ", ".join(a for a, _ in accs) + ")" if len(accs) > 1 else accs[0][0]
        init = "(" + ", ".join(self.lookup(env, n)[0] for n in carried) + ")" if len(carried) > 1 else self.lookup(env, carried[0])[0]
        res = self.fresh("acc")
        env4 = {k_: list(vv) for k_, vv in env.items()}
        outs = []
        for n in carried:
            v = self.fresh(n)
            env4[n] = env4[n][:-1] + [(v, self.lookup(env, n)[1])]
            outs.append(v)
        r2 = cont(env4)
        opat = "'(" + ", ".join(outs) + ")" if len(outs) > 1 else outs[0]
        return R(f"({res} <-- rfold (fun {apat} {xpat} => {bodyr.mon()}) {ltxt} {init};;\n  let {opat} := {res} in\n  {r2.mon()})", False, "ret")

def split_tuple(ty):
    inner, parts, depth, cur = ty[1:-1], [], 0, ""
    for c in inner:
        if c in "(<":
            depth += 1
        if c in ")>":
            depth -= 1
        if c == "," and depth == 0:
            parts.append(cur); cur = ""
        else:
            cur += c
    if cur:
        parts.append(cur)
    return parts

def coq_type(ty, structs, what):
    if ty in QUAL_TYPES:
        return QUAL_TYPES[ty]
    if ty == "fn(u8)->u8":
        return "(N -> N)"
    if ty in INT_BITS:
        return "N"
    if ty == "bool":
        return "bool"
    if ty == "()":
        return "unit"
    if ty in structs:
        return ty
    if ty in ("&[u8]", "[u8]"):
        return "(list N)"
    if ty.startswith("Option<") and ty.endswith(">"):
        return f"(option {coq_type(ty[7:-1], structs, what)})"
    if ty.startswith("(") and ty.endswith(")") and "," in ty:
        return "(" + " * ".join(coq_type(t, structs, what) for t in split_tuple(ty)) + ")"
    if ty.startswith("&"):
        return coq_type(ty[1:], structs, what)
    raise TieBroken(f"{what}: unsupported type {ty!r}")

def read_struct(src, name, what):
    m = list(re.finditer(r"\bstruct %s\b\s*(\(|\{)" % re.escape(name), src))
    if len(m) != 1:
        raise TieBroken(f"{what}: struct {name} found {len(m)} times (expected 1)")
    if m[0].group(1) == "(":
        end = src.index(")", m[0].end())
        tys = [t.strip() for t in src[m[0].end():end].split(",") if t.strip()]
        return [(str(i), re.sub(r"^pub(\([a-z]+\))?\s*", "", t)) for i, t in enumerate(tys)]
    end = match_brace(src, m[0].end() - 1, what)
    body = src[m[0].end():end - 1]
    fields = []
    for part in body.split(","):
        part = re.sub(r"#\[[^\]]*\]", "", part).strip()
        if not part:
            continue
        mm = re.fullmatch(r"(?:pub(?:\([a-z]+\))?\s+)?([a-z_0-9]+)\s*:\s*(.+)", part, re.S)
        if not mm:
            raise TieBroken(f"{what}: cannot read field {part!r} of {name}")
        fields.append((mm.group(1), mm.group(2).strip()))
    return fields

def collect(repo, group, src):
    """structs, enums and parsed functions of one group"""
    structs = {}
    for name, rel in STRUCTS[group].items():
        structs[name] = read_struct(src(rel), name, f"{rel}: struct {name}")
    for vname in VIEW_GROUPS.get(group, []):
        vrel, vfields, _, must = VIEWS[vname]
        sm_ = re.search(r"\bstruct %s\b[^{;]*\{" % re.escape(VIEW_STRUCT_NAME.get(vname, vname)), src(vrel))
        if not sm_:
            raise TieBroken(f"{vrel}: struct {vname} not found")
        sbody = src(vrel)[sm_.end() - 1:match_brace(src(vrel), sm_.end() - 1, vname)]
        for f in must:
            if not re.search(r"\b%s\s*:" % re.escape(f), sbody):
                raise TieBroken(f"{vrel}: struct {vname} has no field {f} any more")
        structs[vname] = vfields
    enums = {}
    for ename, erel in ENUMS.get(group, {}).items():
        em = re.search(r"\benum %s\s*\{" % re.escape(ename), src(erel))
        if not em:
            raise TieBroken(f"{erel}: enum {ename} not found")
        ebody = src(erel)[em.end():match_brace(src(erel), em.end() - 1, ename) - 1]
        variants = []
        for vm in re.finditer(r"([A-Z][A-Za-z0-9]*)\s*(?:\{([^}]*)\})?\s*(?:,|$)", ebody.strip()):
            flds = []
            for part in (vm.group(2) or "").split(","):
                part = part.strip()
                if part:
                    fm = re.fullmatch(r"([a-z_0-9]+)\s*:\s*(\S+)", part)
                    if not fm:
                        raise TieBroken(f"{erel}: cannot read field {part!r} of {ename}::{vm.group(1)}")
                    flds.append((fm.group(1), fm.group(2)))
            variants.append((vm.group(1), flds))
        if not variants:
            raise TieBroken(f"{erel}: enum {ename} has no readable variants")
        enums[ename] = variants
    parsed = []
    for rel, cont, prefix, names in GROUPS[group]:
        s = src(rel)
        scope = container_text(s, cont, rel) if cont else "{" + s + "}"
        for name in names:
            what = f"{rel}: {prefix}::{name}"
            text = preprocess(fn_text(scope, name, what))
            fn = P(lex(text, what), what).fn()
            fn["ret"] = fn["ret"].replace("Self", prefix)
            parsed.append((rel, prefix, fn, what))
    return structs, enums, parsed

def translate(repo, group, _emit=True):
    srcs = {}
    def src(rel):
        if rel not in srcs:
            try:
                srcs[rel] = strip_comments(open(os.path.join(repo, rel), encoding="utf-8").read())
            except OSError as ex:
                raise TieBroken(f"cannot read {rel}: {ex}")
        return srcs[rel]
    structs, enums, parsed = collect(repo, group, src)
    own_structs, own_enums = dict(structs), dict(enums)
    fnsigs = {}
    imports = []
    def closure(g_):
        for d_ in GROUP_IMPORTS.get(g_, []):
            closure(d_)
            if d_ not in imports:
                imports.append(d_)
    closure(group)
    for g in GROUP_IMPORTS.get(group, []):
        # translate the imported group (output discarded) to learn its types, signatures and which functions take fuel
        _, isigs, istructs, ienums = translate(repo, g, _emit=False)
        fnsigs.update(isigs)
        for k_, v_ in istructs.items():
            structs.setdefault(k_, v_)
        for k_, v_ in ienums.items():
            enums.setdefault(k_, v_)
    for rel, prefix, fn, what in parsed:
        fnsigs[(prefix, fn["name"])] = fn
    out = []
    out.append(f"(* GENERATED by tools/rs2coq.py (group {group}) from /repo's current source. Do not edit. *)")
    out.append("From Memchr Require Import Base.Res Base.Bits Gen.Ops" + "".join(f" Gen.Code{g}" for g in imports) + ".")
    if group in QUALIFIED:
        out.append("From Memchr Require " + " ".join(f"Gen.Code{g}" for g in QUALIFIED[group][0]) + ".")
    out.append("Local Open Scope N_scope.")
    out.append("")
    for ename in enums:
        structs.setdefault(ename, [])      # so that coq_type accepts the name
    for ename, variants in own_enums.items():
        out.append(f"Inductive {ename} := " + " | ".join(
            f"{ename}_{v}" + "".join(f" ({f} : {coq_type(t, structs, ename)})" for f, t in flds) for v, flds in variants) + ".")
    for name, fields in own_structs.items():
        flds = "; ".join(f"{name}_{f} : {coq_type(t, structs, name)}" for f, t in fields)
        out.append(f"Record {name} := mk{name} {{ {flds} }}.")
    out.append("")
    defs, deps = {}, {}
    for rel, prefix, fn, what in parsed:
        tr = Tr(structs, fnsigs, prefix, fn, what)
        tr.enums = enums
        tr.struct_alias = STRUCT_ALIAS.get(group, {})
        tr.qual_calls = QUALIFIED.get(group, ([], {}, {}))[2]
        fn["ret"] = re.sub(r"<[A-Z]>$", "", fn["ret"])
        fn["ret"] = tr.struct_alias.get(fn["ret"], fn["ret"])
        env = {}
        binders = []
        if fn["selfmode"]:
            env["self"] = [("self", prefix)]
            binders.append(f"(self : {prefix})")
        for pn, pt in fn["params"]:
            if pn in IGNORED_PARAMS.get((prefix, fn["name"]), []):
                continue
            pt2 = pt.replace("Self", prefix)
            if pt2 in fn.get("generics", []):
                pt2 = "fn(u8)->u8"       # the only generic parameter of the subset: a pure byte ranker
            cn = pn.lstrip("_") + "_"
            env[pn] = [(cn, pt2 if not pt2.startswith("&") or pt2 == "&[u8]" else pt2[1:])]
            binders.append(f"({cn} : {coq_type(pt2, structs, what)})")
        # associated integer constants of the container become environment entries
        cont = [c for (r_, c, p_, _) in GROUPS[group] if p_ == prefix and c]
        for c in cont:
            scope = container_text(src(rel), c, rel)
            for cm in re.finditer(r"const ([A-Z_]+): (u\d+|usize) = ([^;]+);", scope):
                depth = scope[:cm.start()].count("{") - scope[:cm.start()].count("}")
                if depth != 1:
                    continue
                try:
                    val = int(cm.group(3).replace("_", "").strip(), 0)
                except ValueError:
                    continue      # not a literal: unknown to the translation; a kernel that uses it fails closed ("unknown path")
                env[cm.group(1)] = [(f"{val}%N", cm.group(2))]
                env[prefix + "::" + cm.group(1)] = env[cm.group(1)]
                env["Self::" + cm.group(1)] = env[cm.group(1)]
        body = tr.stmts(fn["body"], env, lambda e2: tr.finish(R("tt", True, "()"), e2))
        rty = coq_type(fn["ret"], structs, what)
        if fn["selfmode"] == "mut":
            rty = f"({rty} * {prefix})"
        name = f"rs_{prefix}_{fn['name']}"
        btxt = body.mon()
        fn["uses_fuel"] = tr.uses_fuel
        for oname, octy in sorted(tr.oracles_used.items(), reverse=True):
            binders.insert(0, f"({oname} : {octy})")
        for cname in sorted(tr.type_consts_used, reverse=True):
            binders.insert(0, f"({cname} : N)")
        if tr.uses_fuel:
            binders.insert(0, "(fuel : nat)")
        for a_ in tr.aux:
            an = re.search(r"Fixpoint (\w+)", a_).group(1)
            defs[an] = a_
            deps[an] = set(re.findall(r"\b(rs_[A-Za-z]+_[a-z_0-9]+)\b", a_)) - {an}
        defs[name] = (f"(* {rel}: {prefix}::{fn['name']} *)\nDefinition {name} {' '.join(binders)} : res {rty} :=\n  {btxt}.\n")
        deps[name] = set(re.findall(r"\b(rs_[A-Za-z]+_[a-z_0-9]+)\b", btxt))
    if not _emit:
        return None, fnsigs, structs, enums
    done, order = set(), []
    def visit(n, stack=()):
        if n in done or n not in defs:
            return
        if n in stack:
            raise TieBroken(f"recursive kernels: {n}")
        for d in sorted(deps[n]):
            if d != n:
                visit(d, stack + (n,))
        done.add(n); order.append(n)
    for n in defs:
        visit(n)
    for n in order:
        out.append(defs[n])
    return "\n".join(out) + "\n", fnsigs, structs, enums

def main():
    ap = argparse.ArgumentParser()
    ap.add_argument("--repo", default="/repo")
    ap.add_argument("--outdir", default=None, help="write <outdir>/Code<Group>.v (only when changed)")
    ap.add_argument("--groups", default=",".join(GROUPS))
    a = ap.parse_args()
    rc = 0
    for g in a.groups.split(","):
        if g not in GROUPS:
            print(f"rs2coq: unknown group {g}", file=sys.stderr); sys.exit(2)
        try:
            text = translate(a.repo, g)[0]
        except TieBroken as ex:
            print(f"rs2coq: TIE BROKEN group={g}: {ex}")
            rc = 2
            continue
        except RecursionError:
            print(f"rs2coq: TIE BROKEN group={g}: input too deeply nested")
            rc = 2
            continue
        if a.outdir:
            path = os.path.join(a.outdir, f"Code{g}.v")
            old = None
            try:
                old = open(path).read()
            except OSError:
                pass
            if old != text:
                os.makedirs(a.outdir, exist_ok=True)
                with open(path, "w") as f:
                    f.write(text)
            print(f"rs2coq: group={g} ok ({text.count('Definition ')} definitions)")
        else:
            sys.stdout.write(text)
    sys.exit(rc)

if __name__ == "__main__":
    main()
