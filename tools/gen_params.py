#!/usr/bin/env python3
"""Translator for constants and tables: regenerates coq/Params.v from the
current /repo working tree.  Every pattern fails closed (exit 2 with the name of
the constant) so that a source change this script cannot read is reported as a
broken tie instead of being silently ignored.

usage: gen_params.py [--repo /repo] [--out coq/Params.v] [--json out.json]
"""
import argparse, json, os, re, sys

class TieBroken(Exception):
    pass

def read(repo, rel):
    p = os.path.join(repo, rel)
    try:
        return open(p, encoding="utf-8").read()
    except OSError as e:
        raise TieBroken(f"cannot read {rel}: {e}")

def strip_comments(src):
    # good enough for this crate: no block comments inside code of interest,
    # no '//' inside string literals on the lines we match
    out = []
    for line in src.splitlines():
        i = line.find("//")
        out.append(line if i < 0 else line[:i])
    return "\n".join(out)

def evalnum(expr, what):
    e = expr.strip()
    e = e.replace("core::u8::MAX", "255").replace("u8::MAX", "255")
    e = e.replace("usize::MAX", str(2**64 - 1)).replace("u32::MAX", str(2**32 - 1))
    e = re.sub(r"_", "", e)
    e = re.sub(r"(\d)(usize|u8|u16|u32|u64)\b", r"\1", e)
    if not re.fullmatch(r"[0-9xXa-fA-F+\-*/() <>]+", e):
        raise TieBroken(f"{what}: cannot evaluate expression {expr!r}")
    try:
        return int(eval(e, {"__builtins__": {}}))
    except Exception as ex:
        raise TieBroken(f"{what}: cannot evaluate {expr!r}: {ex}")

def one(pattern, src, what, flags=re.S):
    m = re.findall(pattern, src, flags)
    if len(m) != 1:
        raise TieBroken(f"{what}: pattern matched {len(m)} times (expected 1): {pattern}")
    return m[0]

def allof(pattern, src, what, n, flags=re.S):
    m = re.findall(pattern, src, flags)
    if len(m) != n:
        raise TieBroken(f"{what}: pattern matched {len(m)} times (expected {n}): {pattern}")
    return m

def collect(repo):
    P = {}
    # ---- generic memchr loop multipliers
    g = strip_comments(read(repo, "src/arch/generic/memchr.rs"))
    loops = allof(r"const LOOP_SIZE: usize = ([^;]+?) \* V::BYTES;", g, "LOOP_SIZE", 3)
    P["one_unroll"], P["two_unroll"], P["three_unroll"] = [evalnum(x, "LOOP_SIZE") for x in loops]
    # ---- vector.rs
    v = strip_comments(read(repo, "src/vector.rs"))
    def vec_bytes(modname, ty):
        m = re.search(r"mod %s \{(.*?)\n\}" % modname, v, re.S)
        if not m:
            raise TieBroken(f"vector.rs: module {modname} not found")
        body = m.group(1)
        b = evalnum(one(r"impl Vector for %s \{\s*const BYTES: usize = ([^;]+);" % re.escape(ty), body, f"{modname} BYTES"), "BYTES")
        al = one(r"const ALIGN: usize = ([^;]+);", body, f"{modname} ALIGN").strip()
        if al != "Self::BYTES - 1":
            raise TieBroken(f"{modname}: ALIGN is {al!r}, model assumes Self::BYTES - 1")
        return b, body
    P["sse2_bytes"], _ = vec_bytes("x86sse2", "__m128i")
    P["avx2_bytes"], _ = vec_bytes("x86avx2", "__m256i")
    P["neon_bytes"], neon = vec_bytes("aarch64neon", "uint8x16_t")
    P["simd128_bytes"], _ = vec_bytes("wasm_simd128", "v128")
    sm = one(r"pub\(crate\) struct SensibleMoveMask\((u\d+)\);", v, "SensibleMoveMask width")
    P["sensible_bits"] = int(sm[1:])
    # the sensible mask formulas the model mirrors
    sens = one(r"impl MoveMask for SensibleMoveMask \{(.*?)\n\}", v, "SensibleMoveMask impl")
    P["sensible_all_except"] = int(one(r"fn all_zeros_except_least_significant\(n: usize\) -> SensibleMoveMask \{\s*debug_assert!\(n < (\d+)\);\s*SensibleMoveMask\(!\(\(1 << n\) - 1\)\)", sens, "Sensible all_zeros_except_least_significant"))
    one(r"fn first_offset\(self\) -> usize \{\s*self\.get_for_offset\(\)\.trailing_zeros\(\) as usize", sens, "Sensible first_offset")
    P["sensible_last_base"] = evalnum(one(r"fn last_offset\(self\) -> usize \{\s*(\d+) - self\.get_for_offset\(\)\.leading_zeros\(\) as usize - 1", sens, "Sensible last_offset"), "last_offset")
    one(r"fn clear_least_significant_bit\(self\) -> SensibleMoveMask \{\s*SensibleMoveMask\(self\.0 & \(self\.0 - 1\)\)", sens, "Sensible clear lsb")
    # NEON
    P["neon_shrn"] = evalnum(one(r"vshrn_n_u16\(asu16s, (\d+)\)", neon, "neon shrn"), "shrn")
    P["neon_mask_and"] = evalnum(one(r"NeonMoveMask\(scalar64 & (0x[0-9a-fA-F]+)\)", neon, "neon mask"), "neon mask")
    nm = one(r"pub\(crate\) struct NeonMoveMask\((u\d+)\);", neon, "NeonMoveMask width")
    P["neon_bits"] = int(nm[1:])
    P["neon_clear_shift"] = evalnum(one(r"NeonMoveMask\(!\(\(\(1 << n\) << (\d+)\) - 1\)\)", neon, "neon all_zeros_except"), "neon clear")
    P["neon_offset_shift"] = evalnum(one(r"\(self\.get_for_offset\(\)\.trailing_zeros\(\) >> (\d+)\) as usize", neon, "neon first_offset"), "neon first")
    m = one(r"(\d+) - \(self\.get_for_offset\(\)\.leading_zeros\(\) >> (\d+)\) as usize - 1", neon, "neon last_offset")
    P["neon_last_base"], P["neon_last_shift"] = int(m[0]), int(m[1])
    # ---- SWAR
    s = strip_comments(read(repo, "src/arch/all/memchr.rs"))
    P["swar_loop_words"] = evalnum(one(r"const LOOP_BYTES: usize = ([^;]+?) \* USIZE_BYTES;", s, "LOOP_BYTES"), "LOOP_BYTES")
    one(r"const USIZE_BYTES: usize = \(usize::BITS / 8\) as usize;", s, "USIZE_BYTES")
    one(r"const USIZE_ALIGN: usize = USIZE_BYTES - 1;", s, "USIZE_ALIGN")
    # ---- memmem thresholds
    mm = strip_comments(read(repo, "src/memmem/mod.rs"))
    t = allof(r"if haystack\.len\(\) < (\d+) \{", mm, "one-shot rabin-karp threshold", 2)
    P["oneshot_rk_below_fwd"], P["oneshot_rk_below_rev"] = int(t[0]), int(t[1])
    rk = strip_comments(read(repo, "src/arch/all/rabinkarp.rs"))
    P["rk_fast_below"] = evalnum(one(r"pub\(crate\) fn is_fast\(haystack: &\[u8\], _needle: &\[u8\]\) -> bool \{\s*haystack\.len\(\) < ([^\n]+?)\s*\}", rk, "is_fast"), "is_fast")
    P["rk_hash_bits"] = int(one(r"struct Hash\((u\d+)\);", rk, "Hash width")[1:])
    se = strip_comments(read(repo, "src/memmem/searcher.rs"))
    P["packed_min_len"] = evalnum(one(r"const MIN_LEN: usize = ([^;]+);", se, "MIN_LEN"), "MIN_LEN")
    P["packed_max_len"] = evalnum(one(r"const MAX_LEN: usize = ([^;]+);", se, "MAX_LEN"), "MAX_LEN")
    one(r"MIN_LEN <= needle\.len\(\) && needle\.len\(\) <= MAX_LEN", se, "do_packed_search condition")
    P["pre_min_skips"] = evalnum(one(r"const MIN_SKIPS: u32 = ([^;]+);", se, "MIN_SKIPS"), "MIN_SKIPS")
    P["pre_min_skip_bytes"] = evalnum(one(r"const MIN_SKIP_BYTES: u32 = ([^;]+);", se, "MIN_SKIP_BYTES"), "MIN_SKIP_BYTES")
    P["max_fallback_rank"] = evalnum(one(r"const MAX_FALLBACK_RANK: u8 = ([^;]+);", se, "MAX_FALLBACK_RANK"), "MAX_FALLBACK_RANK")
    eff = one(r"\n    fn is_effective\(&mut self\) -> bool \{(.*?)\n    \}", se, "is_effective body")
    if "MIN_SKIP_BYTES.saturating_mul(self.skips())" in eff.replace("PrefilterState::", ""):
        P["pre_mul_saturating"] = 1
    elif re.search(r"MIN_SKIP_BYTES\s*\*\s*self\.skips\(\)", eff.replace("PrefilterState::", "")):
        P["pre_mul_saturating"] = 0
    else:
        raise TieBroken("is_effective: cannot find the MIN_SKIP_BYTES * skips() comparison")
    # ---- Pair
    pp = strip_comments(read(repo, "src/arch/all/packedpair/mod.rs"))
    P["pair_scan_cap"] = evalnum(one(r"let max = usize::from\(([^)]+)\);", pp, "pair scan cap"), "pair scan cap")
    P["pair_scan_skip"] = evalnum(one(r"needle\.iter\(\)\.enumerate\(\)\.take\(max\)\.skip\((\d+)\)", pp, "pair scan skip"), "pair scan skip")
    # ---- Shift-Or
    so = strip_comments(read(repo, "src/arch/all/shiftor.rs"))
    P["shiftor_mask_bits"] = int(one(r"type Mask = (u\d+);", so, "shiftor Mask")[1:])
    # ---- generic packedpair confirm guard (finding F2): which form is in the source
    gp = strip_comments(read(repo, "src/arch/generic/packedpair.rs"))
    if re.search(r"if end\.sub\(needle\.len\(\)\) < cur \{", gp):
        P["pp_confirm_guard_checked"] = 0
    elif re.search(r"if end\.distance\(cur\) < needle\.len\(\) \{", gp):
        P["pp_confirm_guard_checked"] = 1
    else:
        raise TieBroken("generic packedpair: cannot find the confirm guard in find_in_chunk")
    # ---- default rank table
    dr = strip_comments(read(repo, "src/arch/all/packedpair/default_rank.rs"))
    body = one(r"pub\(crate\) const RANK: \[u8; 256\] = \[(.*?)\];", dr, "RANK table")
    nums = [int(x) for x in re.findall(r"\d+", body)]
    if len(nums) != 256:
        raise TieBroken(f"RANK table has {len(nums)} entries")
    P["default_rank"] = nums
    return P

NAT_PARAMS = ["one_unroll", "two_unroll", "three_unroll", "sse2_bytes", "avx2_bytes",
              "neon_bytes", "simd128_bytes", "sensible_bits", "sensible_all_except",
              "sensible_last_base", "neon_shrn", "neon_bits", "neon_clear_shift",
              "neon_offset_shift", "neon_last_base", "neon_last_shift", "swar_loop_words",
              "rk_hash_bits", "shiftor_mask_bits", "pair_scan_skip"]
N_PARAMS = ["neon_mask_and", "oneshot_rk_below_fwd", "oneshot_rk_below_rev", "rk_fast_below",
            "packed_min_len", "packed_max_len", "pre_min_skips", "pre_min_skip_bytes",
            "max_fallback_rank", "pair_scan_cap"]
BOOL_PARAMS = ["pre_mul_saturating", "pp_confirm_guard_checked"]

def render(P):
    L = []
    L.append("(* GENERATED by tools/gen_params.py from /repo's current source. Do not edit. *)")
    L.append("From Coq Require Import List NArith.")
    L.append("Import ListNotations.")
    L.append("")
    for k in NAT_PARAMS:
        if P[k] > 4096:
            raise TieBroken(f"{k} = {P[k]}: too large for a structural (nat) parameter of the model")
        L.append(f"Definition {k} : nat := {P[k]}.")
    for k in N_PARAMS:
        L.append(f"Definition {k} : N := {P[k]}%N.")
    for k in BOOL_PARAMS:
        L.append(f"Definition {k} : bool := {'true' if P[k] else 'false'}.")
    L.append("Definition default_rank_table : list N := [")
    rows = []
    for i in range(0, 256, 16):
        rows.append("  " + "; ".join(str(x) for x in P["default_rank"][i:i+16]))
    L.append(";\n".join(rows))
    L.append("]%N.")
    L.append("")
    return "\n".join(L)

def main():
    ap = argparse.ArgumentParser()
    ap.add_argument("--repo", default="/repo")
    ap.add_argument("--out", default=None)
    ap.add_argument("--json", default=None)
    a = ap.parse_args()
    try:
        P = collect(a.repo)
        text = render(P)
    except TieBroken as e:
        print(f"TIE-BROKEN gen_params: {e}", file=sys.stderr)
        sys.exit(2)
    if a.json:
        with open(a.json, "w") as f:
            json.dump(P, f)
    if a.out:
        old = None
        if os.path.exists(a.out):
            old = open(a.out).read()
        if old != text:
            with open(a.out, "w") as f:
                f.write(text)
            print(f"gen_params: wrote {a.out}")
        else:
            print(f"gen_params: {a.out} unchanged")
    else:
        sys.stdout.write(text)

if __name__ == "__main__":
    main()
