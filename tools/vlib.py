"""Shared machinery of the checks: builds (Coq, extraction, harness), running
model and implementation on case files, diffing, oracles, verdicts, evidence."""
import hashlib, json, os, random, re, shutil, subprocess, sys, time

VERIF = os.path.dirname(os.path.dirname(os.path.abspath(__file__)))
REPO = os.environ.get("VERIF_REPO", "/repo")
BUILD = os.path.join(VERIF, "build")
COQ = os.path.join(VERIF, "coq")
MODEL_BUILD = os.path.join(BUILD, "model")
CASES = os.path.join(BUILD, "cases")
REPLAYS = os.path.join(VERIF, "replays")
EVIDENCE = os.path.join(VERIF, "evidence")
GUARD = "memchr_verif"

FORBIDDEN = re.compile(r"\b(Admitted|admit|Axiom|Parameter|Conjecture|Unset Guard|bypass_check|"
                       r"Admit Obligations|Unset Positivity|Unset Universe|type-in-type|impredicative-set)\b")

def log(*a):
    print(*a, file=sys.stderr, flush=True)

def sh(cmd, cwd=None, env=None, timeout=None, check=False):
    e = dict(os.environ)
    e.update({"CARGO_NET_OFFLINE": "true", "LC_ALL": "C"})
    if env:
        e.update(env)
    p = subprocess.run(cmd, cwd=cwd, env=e, shell=isinstance(cmd, str), stdout=subprocess.PIPE,
                       stderr=subprocess.STDOUT, timeout=timeout, text=True, errors="replace")
    if check and p.returncode != 0:
        raise RuntimeError(f"command failed ({p.returncode}): {cmd}\n{p.stdout[-4000:]}")
    return p.returncode, p.stdout

# --------------------------------------------------------------------------
# Coq side
# --------------------------------------------------------------------------
def gen_params():
    """Regenerate coq/Params.v from the current source. Returns (ok, message)."""
    rc, out = sh([sys.executable, os.path.join(VERIF, "tools", "gen_params.py"), "--repo", REPO,
                  "--out", os.path.join(COQ, "Params.v"), "--json", os.path.join(BUILD, "params.json")])
    return rc == 0, out.strip()

def gen_code(groups):
    """Regenerate coq/Gen/Code<Group>.v (translated Rust kernels) from the current source.
    Returns {group: (ok, message)}."""
    rc, out = sh([sys.executable, os.path.join(VERIF, "tools", "rs2coq.py"), "--repo", REPO,
                  "--outdir", os.path.join(COQ, "Gen"), "--groups", ",".join(groups)])
    res = {}
    for g in groups:
        ok = f"rs2coq: group={g} ok" in out
        m = re.search(r"rs2coq: TIE BROKEN group=%s: (.*)" % re.escape(g), out)
        res[g] = (ok, "ok" if ok else (m.group(1) if m else out.strip()[-400:]))
    return res

def tie_theorems(groups):
    """names of the theorems and Print Assumptions lines in Gen/Tie<Group>.v"""
    names, prints, nfun = [], [], 0
    for g in groups:
        try:
            txt = open(os.path.join(COQ, "Gen", f"Tie{g}.v"), encoding="utf-8").read()
            code = open(os.path.join(COQ, "Gen", f"Code{g}.v"), encoding="utf-8").read()
        except OSError:
            continue
        names += re.findall(r"^Theorem\s+(\w+)", txt, flags=re.M)
        prints += re.findall(r"^Print Assumptions\s+(\w+)\.", txt, flags=re.M)
        nfun += len(re.findall(r"^Definition rs_", code, flags=re.M))
    return names, prints, nfun

def coq_makefile():
    mk = os.path.join(COQ, "Makefile.coq")
    proj = os.path.join(COQ, "_CoqProject")
    if not os.path.exists(mk) or os.path.getmtime(mk) < os.path.getmtime(proj):
        sh("coq_makefile -f _CoqProject -o Makefile.coq", cwd=COQ, check=True)

def coq_forbidden_scan():
    bad = []
    for root, _, files in os.walk(COQ):
        for f in files:
            if f.endswith(".v"):
                p = os.path.join(root, f)
                txt = open(p, encoding="utf-8").read()
                # strip comments (nested comments are not used in this development)
                txt = re.sub(r"\(\*.*?\*\)", " ", txt, flags=re.S)
                for m in FORBIDDEN.finditer(txt):
                    bad.append(f"{os.path.relpath(p, COQ)}: {m.group(0)}")
    return bad

def coq_build(targets, timeout=1500, jobs=16):
    """make the given .vo targets. Returns dict(ok, output, assumptions, theorems)."""
    coq_makefile()
    t0 = time.time()
    # Props files print their assumptions at compile time; force them to be
    # recompiled so that the output is there to be parsed.
    for t in targets:
        if t.startswith("Props/") or t.startswith("Gen/Tie"):
            vo = os.path.join(COQ, t)
            if os.path.exists(vo):
                os.remove(vo)
    try:
        rc, out = sh(["make", "-f", "Makefile.coq", f"-j{jobs}"] + targets, cwd=COQ, timeout=timeout)
    except subprocess.TimeoutExpired:
        return dict(ok=False, output="coq build timed out", assumptions=[], wall=time.time() - t0)
    return dict(ok=(rc == 0), output=out, wall=time.time() - t0)

def parse_assumptions(output):
    """Print Assumptions prints either 'Closed under the global context' or
    'Axioms:' followed by the axioms. Returns (closed_count, axioms_list)."""
    closed = len(re.findall(r"Closed under the global context", output))
    axioms = []
    for m in re.finditer(r"Axioms:\n((?:.+\n?)+?)(?:\n|$)", output):
        for line in m.group(1).splitlines():
            mm = re.match(r"^(\S+)\s*:", line)
            if mm:
                axioms.append(mm.group(1))
    return closed, axioms

def props_theorems(pid):
    """names and statements of the theorems in Props/<pid>.v"""
    p = os.path.join(COQ, "Props", pid + ".v")
    txt = open(p, encoding="utf-8").read()
    names = re.findall(r"^(?:Theorem|Corollary)\s+(\w+)", txt, flags=re.M)
    examples = re.findall(r"^Example\s+(\w+)", txt, flags=re.M)
    prints = re.findall(r"^Print Assumptions\s+(\w+)\.", txt, flags=re.M)
    # statement text (up to 'Proof.') hashed so that a quiet weakening shows up
    stmts = re.findall(r"^(?:Theorem|Corollary)\s+\w+.*?(?=^Proof\.)", txt, flags=re.M | re.S)
    h = hashlib.sha256("\n".join(s.strip() for s in stmts).encode()).hexdigest()
    return dict(theorems=names, examples=examples, prints=prints, statement_hash=h)

def build_model(timeout=900):
    """Extract the model and compile the OCaml driver (only when stale)."""
    os.makedirs(MODEL_BUILD, exist_ok=True)
    exe = os.path.join(MODEL_BUILD, "run")
    srcs = [os.path.join(COQ, "Extract.v"), os.path.join(VERIF, "model", "run.ml")]
    deps = []
    for root, _, files in os.walk(COQ):
        for f in files:
            if f.endswith(".vo") and not root.endswith("Props") and not root.endswith("Gen"):
                deps.append(os.path.join(root, f))
    newest = max(os.path.getmtime(p) for p in srcs + deps)
    if os.path.exists(exe) and os.path.getmtime(exe) >= newest:
        return True, "model up to date"
    rc, out = sh(["coqc", "-Q", COQ, "Memchr", "-o", os.path.join(MODEL_BUILD, "Extract.vo"),
                  os.path.join(COQ, "Extract.v")], cwd=MODEL_BUILD, timeout=timeout)
    if rc != 0:
        return False, "extraction failed:\n" + out[-3000:]
    shutil.copy(os.path.join(VERIF, "model", "run.ml"), os.path.join(MODEL_BUILD, "run.ml"))
    rc, out = sh("ocamlfind ocamlopt -w -a extracted.mli extracted.ml run.ml -o run.tmp && mv run.tmp run",
                 cwd=MODEL_BUILD, timeout=timeout)
    if rc != 0:
        return False, "ocaml build failed:\n" + out[-3000:]
    return True, "model rebuilt"

def model_deps_for_extract():
    """the .vo files Extract.v needs (everything but Props and proofs is fine: make decides)"""
    return ["Extract.vo"]

# --------------------------------------------------------------------------
# Rust side
# --------------------------------------------------------------------------
def harness_build(profile="debug", hooks=True, features=None, extra_rustflags="", timeout=1200, tag=None, hdir=None, target=None, nothreads=False):
    """Build the harness against /repo's working tree. Returns (ok, exe_or_msg)."""
    if hdir is None and REPO != "/repo":
        # checks running against a copy of the repository (VERIF_REPO): point the harness at it
        hdir = os.path.join(BUILD, "harness-alt")
        os.makedirs(hdir, exist_ok=True)
        shutil.copytree(os.path.join(VERIF, "harness", "src"), os.path.join(hdir, "src"), dirs_exist_ok=True)
        cargo = open(os.path.join(VERIF, "harness", "Cargo.toml")).read().replace('path = "/repo"', f'path = "{REPO}"')
        cp = os.path.join(hdir, "Cargo.toml")
        if not os.path.exists(cp) or open(cp).read() != cargo:
            open(cp, "w").write(cargo)
    hdir = hdir or os.path.join(VERIF, "harness")
    lock = os.path.join(hdir, "Cargo.lock")
    if not os.path.exists(lock):
        for cand in (os.path.join(REPO, "Cargo.lock"), os.path.join(VERIF, "harness", "Cargo.lock"), "/repo/Cargo.lock"):
            if os.path.exists(cand):
                shutil.copy(cand, lock)
                break
    tag = tag or (("hook" if hooks else "plain") + ("-" + ("_".join(features) or "none") if features is not None else "")
                  + ("-" + re.sub(r"[^a-z0-9]+", "", extra_rustflags.lower()) if extra_rustflags else ""))
    if nothreads:
        tag += "-nothreads"
    target = target or os.path.join(BUILD, "target-" + tag)
    flags = (f"--cfg {GUARD} " if hooks else "") + ("--cfg verif_nothreads " if nothreads else "") + extra_rustflags
    cmd = ["cargo", "build", "--offline", "--quiet"]
    if profile == "release":
        cmd.append("--release")
    if features is not None:
        cmd += ["--no-default-features"]
        if features:
            cmd += ["--features", ",".join(features)]
    env = {"RUSTFLAGS": flags.strip(), "CARGO_TARGET_DIR": target}
    try:
        rc, out = sh(cmd, cwd=hdir, env=env, timeout=timeout)
    except subprocess.TimeoutExpired:
        return False, "cargo build timed out"
    if rc != 0:
        return False, out[-6000:]
    return True, os.path.join(target, profile, "mv-harness")

def run_lines(exe, casefile, env=None, timeout=None):
    """Run an executable on a case file, restarting after a crash so that one
    faulting case does not hide the others. Returns list of (res, trace)
    with res == 'CRASH(<signal>)' for the case the process died on and 'CRASH(timeout)' for a case
    that did not finish within the time limit (a hang is a failure to return normally)."""
    n = sum(1 for _ in open(casefile))
    timeout = timeout or int(os.environ.get("VERIF_CASE_TIMEOUT", str(600 + n // 20)))
    rows = {}
    start = 0
    guard = 0
    while start < n and guard < 200:
        guard += 1
        e = dict(os.environ)
        if env:
            e.update(env)
        pr = subprocess.Popen([exe, casefile, str(start)], stdout=subprocess.PIPE, stderr=subprocess.PIPE,
                              env=e, text=True, errors="replace")
        try:
            out, _ = pr.communicate(timeout=timeout)
            rc = pr.returncode
        except subprocess.TimeoutExpired:
            pr.kill()
            out, _ = pr.communicate()
            rc = "timeout"
        last = start - 1
        for line in out.splitlines():
            parts = line.split("\t")
            if len(parts) != 3:
                continue
            try:
                i = int(parts[0])
            except ValueError:
                continue
            rows[i] = (parts[1], parts[2])
            last = i
        if rc == 0 and last == n - 1:
            break
        if rc == 0:
            # finished early without crash: should not happen
            for i in range(last + 1, n):
                rows[i] = ("MISSING", "-")
            break
        crashed = last + 1
        if crashed < n:
            rows[crashed] = (f"CRASH({rc})", "-")
        if rc == "timeout":
            break              # one hang is enough; the rest of this shard stays MISSING
        start = crashed + 1
    return [rows.get(i, ("MISSING", "-")) for i in range(n)]

def run_model(casefile, timeout=1800):
    exe = os.path.join(MODEL_BUILD, "run")
    p = subprocess.run([exe, casefile], stdout=subprocess.PIPE, stderr=subprocess.PIPE, timeout=timeout,
                       text=True, errors="replace")
    rows = []
    for line in p.stdout.splitlines():
        parts = line.split("\t")
        if len(parts) == 3:
            rows.append((parts[1], parts[2]))
    if p.returncode != 0:
        rows.append((f"MODEL-CRASH({p.returncode}) {p.stderr[-300:]}", "-"))
    return rows

def canon_res(r):
    """Panic kinds are only known to the model."""
    return "Panic" if "Panic" in r else r

_REAL_ASSERTS = {"AssertFail1", "AssertFail60", "AssertFail61"}   # assert!/assert_ne! (not debug_assert!)

def debug_only_panic(model_res):
    """the model's panic kinds that exist only in builds with debug assertions / overflow checks"""
    m = re.search(r"Panic:(\w+)", model_res)
    if not m:
        return False
    k = m.group(1)
    if k.startswith("AssertFail"):
        return k not in _REAL_ASSERTS
    return k in ("Overflow", "SubUnderflow", "PtrOutOfSlice", "ReadOOB")

def split_trace(t):
    """trace column -> (trace, flags) where flags are the !OOB/!MISALIGNED markers"""
    if " !" in t:
        a, b = t.split(" !", 1)
        return a, b
    return t, ""

# --------------------------------------------------------------------------
# case-file helpers
# --------------------------------------------------------------------------
def hexs(b):
    return bytes(b).hex()

def parse_case(line):
    toks = line.split()
    kv = {}
    for t in toks[1:]:
        if "=" in t:
            k, v = t.split("=", 1)
            kv[k] = v
    return toks[0] if toks else "", kv

def write_cases(path, lines):
    os.makedirs(os.path.dirname(path), exist_ok=True)
    with open(path, "w") as f:
        for l in lines:
            f.write(l + "\n")

# --------------------------------------------------------------------------
# evidence / verdict
# --------------------------------------------------------------------------
def known_findings():
    """entries of /verif/known_findings.txt: ('known'|'fixed', property, rest-of-line)"""
    p = os.path.join(VERIF, "known_findings.txt")
    out = []
    if os.path.exists(p):
        for line in open(p):
            line = line.strip()
            if not line or line.startswith("#"):
                continue
            m = re.match(r"^(known|fixed):\s*property=(\S+)\s+(.*)$", line)
            if m:
                out.append((m.group(1), m.group(2), m.group(3)))
    return out

def write_evidence(pid, tier, seed, coverage, wall, violations, assumptions):
    os.makedirs(EVIDENCE, exist_ok=True)
    ev = dict(property_id=pid, tier=tier, seed=int(seed), level="proof", coverage=coverage,
              assumptions=assumptions, wall_s=round(wall, 2), violations=int(violations))
    with open(os.path.join(EVIDENCE, pid + ".json"), "w") as f:
        json.dump(ev, f, indent=1, sort_keys=True)
        f.write("\n")

def write_replay(pid, name, payload):
    os.makedirs(REPLAYS, exist_ok=True)
    p = os.path.join(REPLAYS, f"{pid}-{name}.json")
    with open(p, "w") as f:
        json.dump(payload, f, indent=1)
        f.write("\n")
    return p


# --------------------------------------------------------------------------
# emulated NEON / simd128 builds (scratch copy outside /repo and /verif, removed by the caller)
# --------------------------------------------------------------------------
def emu_build(arch, profile="debug"):
    """returns (ok, exe_or_msg, scratch_dir)"""
    import tempfile
    scratch = tempfile.mkdtemp(prefix=f"memchr-emu-{arch}-", dir="/tmp")
    rc, out = sh([sys.executable, os.path.join(VERIF, "tools", "emu_build.py"), arch, scratch, "--repo", REPO])
    if rc != 0:
        return False, out[-2000:], scratch
    ok, exe = harness_build(profile=profile, hooks=True, extra_rustflags=f'--cfg memchr_emu="{arch}"',
                            hdir=os.path.join(scratch, "harness"), target=os.path.join(scratch, "target"))
    return ok, exe, scratch

def emu_cases(cases, arch):
    """re-target x86 cases at the emulated architecture"""
    out = []
    for c in cases:
        if " cpu=" in c or " be=avx2" in c or " isa=avx2" in c or " be=swar" in c or " low=1" in c:
            continue
        if " isa=portable" in c or c.startswith("avail "):
            continue
        c = c.replace(" be=sse2", f" be={arch}").replace(" isa=sse2", f" isa={arch}")
        if " be=top" in c or c.startswith(("mm ", "mmiter ", "hist ", "pfprefilter ")):
            c = c + f" cpu={arch}"
        out.append(c)
    return out

def coqchk(pid, timeout=2400, extra=()):
    """independent re-check of the compiled property file and everything it depends on; returns
    dict(ok, axioms, type_in_type, wall, tail)"""
    t0 = time.time()
    try:
        p = subprocess.run(["coqchk", "-silent", "-o", "-Q", COQ, "Memchr", f"Memchr.Props.{pid}"] + list(extra),
                           stdout=subprocess.PIPE, stderr=subprocess.STDOUT, text=True, timeout=timeout)
        out, rc = p.stdout, p.returncode
    except subprocess.TimeoutExpired as ex:
        out, rc = (ex.stdout or "") + "\nTIMEOUT", 124
    sect = {}
    cur = None
    for line in out.splitlines():
        m = re.match(r"\* ([^:]+):\s*(.*)$", line.strip())
        if m:
            cur = m.group(1).strip()
            sect[cur] = [m.group(2).strip()] if m.group(2).strip() else []
        elif cur and line.strip():
            sect[cur].append(line.strip())
    def items(k):
        v = [x for x in sect.get(k, []) if x and x != "<none>"]
        return v
    ax = items("Axioms")
    tit = items("Constants/Inductives relying on type-in-type")
    return dict(ok=(rc == 0), axioms=ax, type_in_type=tit, unsafe=items("Constants/Inductives relying on unsafe (co)fixpoints")
                + items("Inductives whose positivity is assumed"), wall=time.time() - t0, tail=out[-600:])
