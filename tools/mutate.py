#!/usr/bin/env python3
"""Automated single-edit mutation sweep (analysis tool, not a registered check).

  mutate.py gen   <outdir> [per_file]      write <outdir>/<id>.diff (+ index.json): single-token mutants of /repo/src
  mutate.py suite <outdir> [jobs]          run the crate's own test-suite on every mutant (scratch copies under /tmp),
                                           record which ones it lets through  -> <outdir>/suite.json
  mutate.py check <outdir> [max]           for the mutants the suite lets through: apply to /repo, run the mapped quick
                                           checks, restore /repo                     -> <outdir>/checks.json
  mutate.py report <outdir>

Mutation operators: relational (< <= > >= == !=), boolean (&& ||), +/- 1 offsets, + <-> -, saturating/wrapping/checked
arithmetic, min <-> max, deletion of a simple assignment statement.  Test modules, comments, doc comments, hook lines
(cfg(memchr_verif)), debug assertions and Debug impls are not mutated.
"""
import difflib, json, os, random, re, shutil, subprocess, sys, time
from concurrent.futures import ThreadPoolExecutor

REPO = "/repo"
VERIF = os.path.dirname(os.path.dirname(os.path.abspath(__file__)))

FILES = {
    "src/arch/all/memchr.rs": ["C01", "C02", "C06", "C07"],
    "src/arch/all/mod.rs": ["C18", "C12"],
    "src/arch/all/rabinkarp.rs": ["C12", "C05", "C03", "C04"],
    "src/arch/all/shiftor.rs": ["C12"],
    "src/arch/all/twoway.rs": ["C12", "C03", "C04", "C13"],
    "src/arch/all/packedpair/mod.rs": ["C19", "C11", "C14"],
    "src/arch/generic/memchr.rs": ["C01", "C02", "C06", "C07", "C05"],
    "src/arch/generic/packedpair.rs": ["C11", "C12", "C05", "C14"],
    "src/arch/x86_64/avx2/memchr.rs": ["C01", "C02", "C07", "C06"],
    "src/arch/x86_64/sse2/memchr.rs": ["C01", "C02", "C07", "C06"],
    "src/arch/x86_64/avx2/packedpair.rs": ["C11", "C12"],
    "src/arch/x86_64/sse2/packedpair.rs": ["C11", "C12"],
    "src/arch/x86_64/memchr.rs": ["C09", "C15", "C01"],
    "src/memchr.rs": ["C01", "C02", "C06", "C07"],
    "src/memmem/mod.rs": ["C08", "C16", "C03", "C04"],
    "src/memmem/searcher.rs": ["C03", "C04", "C10", "C14", "C13"],
    "src/vector.rs": ["C01", "C02", "C07", "C11", "C12"],
    "src/arch/aarch64/neon/memchr.rs": ["C01", "C02", "C07", "C06"],
    "src/arch/aarch64/neon/packedpair.rs": ["C11", "C12"],
    "src/arch/wasm32/simd128/memchr.rs": ["C01", "C02", "C07", "C06"],
    "src/arch/wasm32/simd128/packedpair.rs": ["C11", "C12"],
    "src/cow.rs": ["C16", "C17"],
}

OPS = [
    (r" <= ", [" < "]), (r" < ", [" <= "]), (r" >= ", [" > "]), (r" > ", [" >= "]),
    (r" == ", [" != "]), (r" != ", [" == "]),
    (r" && ", [" || "]), (r" \|\| ", [" && "]),
    (r" \+ 1\b", [" + 0", " + 2"]), (r" - 1\b", [" - 0", " - 2"]),
    (r" \+ ", [" - "]), (r" - ", [" + "]),
    (r"\.saturating_sub\(", [".wrapping_sub("]), (r"\.saturating_add\(", [".wrapping_add("]),
    (r"\.saturating_mul\(", [".wrapping_mul("]),
    (r"\bcmp::min\(", ["cmp::max("]), (r"\bcmp::max\(", ["cmp::min("]),
    (r"\.wrapping_add\(", [".wrapping_sub("]), (r"\.wrapping_sub\(", [".wrapping_add("]),
    (r"\.wrapping_mul\(2\)", [".wrapping_mul(3)"]),
    (r"\.add\(", [".sub("]), (r"\.sub\(", [".add("]),
    (r"\bneedle1\(\)", ["needle2()"]), (r"\bneedle2\(\)", ["needle1()"]), (r"\bneedle3\(\)", ["needle1()"]),
    (r"\bindex1\b", ["index2"]), (r"\bindex2\b", ["index1"]),
    (r"\.\.=", [".."]), (r"\btrue\b", ["false"]), (r"\bfalse\b", ["true"]),
    (r"\bSome\(0\)", ["Some(1)"]), (r"\[0\]", ["[1]"]), (r"\(0\)", ["(1)"]), (r" = 0;", [" = 1;"]),
    (r"\.min\(", [".max("]), (r"\.max\(", [".min("]),
    (r"\.checked_sub\(", [".checked_add("]), (r"\.checked_add\(", [".checked_sub("]),
    (r" \* 2\b", [" * 3"]), (r" / 2\b", [" / 3"]), (r" >> 2\b", [" >> 1"]), (r" << 2\b", [" << 1"]),
    (r"\bstart\b", ["end"]), 
]

def mutable_lines(text):
    """indices of lines that may be mutated"""
    lines = text.split("\n")
    ok = []
    in_test = False
    skip_next = 0
    depth_debug = 0
    for i, l in enumerate(lines):
        st = l.strip()
        if st.startswith("#[cfg(test)]") or st.startswith("#[cfg(all(test"):
            in_test = True
        if in_test:
            continue
        if skip_next > 0:
            skip_next -= 1
            continue
        if st.startswith("#[cfg(memchr_verif)]"):
            skip_next = 3 if lines[i + 1].strip().startswith("if ") else 1      # hook statement or hook if-block
            continue
        if st.startswith("#[cfg(not(") or st.startswith("#[cfg(all(not("):
            skip_next = 3          # branches that are compiled out on this host
            continue
        if st.startswith("//") or st.startswith("#[") or st.startswith("#!") or not st:
            continue
        if "debug_assert" in st or "crate::verif" in st or "fmt::" in st or "debug!" in st or "trace!" in st:
            continue
        if st.startswith(("use ", "pub use ", "mod ", "pub mod ", "const ", "pub const ", "macro_rules")):
            continue
        code = l.split("//")[0]
        if '"' in code:
            continue
        ok.append(i)
    return lines, ok

def gen(outdir, per_file):
    os.makedirs(outdir, exist_ok=True)
    rng = random.Random(int(os.environ.get('MUTATE_SEED', '20261001')))
    index = []
    for f, checks in FILES.items():
        text = open(os.path.join(REPO, f)).read()
        lines, ok = mutable_lines(text)
        cands = []
        for i in ok:
            code = lines[i]
            cpos = code.find("//")
            body = code if cpos < 0 else code[:cpos]
            for (pat, reps) in OPS:
                for m in re.finditer(pat, body):
                    # generics / lifetimes / arrows / shifts are not relational operators
                    seg = body[max(0, m.start() - 2): m.end() + 2]
                    if "->" in seg or "=>" in seg or "<<" in seg or ">>" in seg or "<'" in seg:
                        continue
                    for r in reps:
                        cands.append((i, m.start(), m.end(), r, pat))
            st = body.strip()
            if re.match(r"^[a-z_][a-z_0-9.]* (\+|-)?= [^;]+;$", st) and not st.startswith("let "):
                cands.append((i, None, None, "<delete>", "stmt-delete"))
        rng.shuffle(cands)
        seen_lines = {}
        seen_ops = {}
        picked = []
        for c in cands:
            if seen_lines.get(c[0], 0) >= 2 or seen_ops.get(c[4], 0) >= 3:
                continue
            seen_ops[c[4]] = seen_ops.get(c[4], 0) + 1
            seen_lines[c[0]] = seen_lines.get(c[0], 0) + 1
            picked.append(c)
            if len(picked) >= per_file:
                break
        for k, (i, a, b, r, pat) in enumerate(sorted(picked, key=lambda c: (c[0], c[1] or -1, c[3]))):
            new = list(lines)
            if r == "<delete>":
                indent = re.match(r"^\s*", lines[i]).group(0)
                new[i] = indent + "// (statement removed)"
            else:
                new[i] = lines[i][:a] + r + lines[i][b:]
            mid = f"{os.path.basename(os.path.dirname(f))}_{os.path.basename(f)[:-3]}_{i + 1}_{k}"
            diff = "".join(difflib.unified_diff([x + "\n" for x in lines], [x + "\n" for x in new], "a/" + f, "b/" + f, n=3))
            # trailing-newline bookkeeping: the split added one "\n" too many on the last (empty) element
            diff = diff.replace("\n\\ No newline at end of file\n", "\n")
            open(os.path.join(outdir, mid + ".diff"), "w").write(diff)
            index.append(dict(id=mid, file=f, line=i + 1, op=pat, old=lines[i].strip(), new=new[i].strip(), checks=checks))
    json.dump(index, open(os.path.join(outdir, "index.json"), "w"), indent=1)
    print(len(index), "mutants")

def sh(cmd, **kw):
    return subprocess.run(cmd, shell=True, stdout=subprocess.PIPE, stderr=subprocess.STDOUT, text=True, **kw)

def suite(outdir, jobs):
    index = json.load(open(os.path.join(outdir, "index.json")))
    res_path = os.path.join(outdir, "suite.json")
    res = json.load(open(res_path)) if os.path.exists(res_path) else {}
    todo = [m for m in index if m["id"] not in res]
    workers = []
    for w in range(jobs):
        d = f"/tmp/mutw{w}"
        if not os.path.exists(d):
            sh(f"git -C {REPO} worktree add --detach {d} HEAD -q")
        workers.append(d)
    def run(args):
        w, m = args
        d = workers[w]
        sh(f"git -C {d} checkout -q -- .")
        a = sh(f"git -C {d} apply {os.path.join(outdir, m['id'] + '.diff')}")
        if a.returncode != 0:
            return m["id"], dict(status="apply-failed", out=a.stdout[-300:])
        env = dict(os.environ, CARGO_TARGET_DIR=d + "/target", CARGO_NET_OFFLINE="true")
        t0 = time.time()
        # own process group, so that a mutant that loops forever can be killed together with its test binaries
        pr = subprocess.Popen("exec cargo test --workspace --no-fail-fast --offline", shell=True, cwd=d, env=env,
                              stdout=subprocess.PIPE, stderr=subprocess.STDOUT, text=True, start_new_session=True)
        try:
            out, _ = pr.communicate(timeout=300)
            rc = pr.returncode
        except subprocess.TimeoutExpired:
            import signal
            os.killpg(pr.pid, signal.SIGKILL)
            pr.communicate()
            out, rc = "TIMEOUT", 124
        sh(f"git -C {d} checkout -q -- .")
        if "error[" in out or "error: could not compile" in out:
            st = "compile-error"
        elif rc == 0:
            st = "suite-passes"
        elif rc == 124:
            st = "suite-timeout"
        else:
            st = "suite-fails"
        return m["id"], dict(status=st, wall=round(time.time() - t0, 1))
    chunks = [todo[i::jobs] for i in range(jobs)]
    def worker(w):
        out = []
        for m in chunks[w]:
            out.append(run((w, m)))
            res[out[-1][0]] = out[-1][1]
            if len(res) % 10 == 0:
                json.dump(res, open(res_path, "w"), indent=1)
        return out
    with ThreadPoolExecutor(max_workers=jobs) as ex:
        list(ex.map(worker, range(jobs)))
    json.dump(res, open(res_path, "w"), indent=1)
    for d in workers:
        sh(f"git -C {REPO} worktree remove --force {d}")
    from collections import Counter
    print(Counter(v["status"] for v in res.values()))

def check(outdir, mx, jobs=4):
    """suite-surviving mutants against the mapped quick checks, `jobs` at a time: every worker has its own copy of
    /verif (its own build, coq and evidence directories) and its own worktree of /repo (VERIF_REPO)"""
    index = {m["id"]: m for m in json.load(open(os.path.join(outdir, "index.json")))}
    suite_res = json.load(open(os.path.join(outdir, "suite.json")))
    res_path = os.path.join(outdir, "checks.json")
    res = json.load(open(res_path)) if os.path.exists(res_path) else {}
    todo = [i for i, v in suite_res.items() if v["status"] == "suite-passes" and i not in res][:mx]
    workers = []
    for w in range(jobs):
        vw, rw = f"/tmp/vw{w}", f"/tmp/mrepo{w}"
        if not os.path.exists(vw):
            sh(f"rsync -a --exclude .git --exclude replays --exclude seeded {VERIF}/ {vw}/")
        if not os.path.exists(rw):
            sh(f"git -C {REPO} worktree add --detach {rw} HEAD -q")
        if os.path.exists(os.path.join(REPO, "Cargo.lock")):
            shutil.copy(os.path.join(REPO, "Cargo.lock"), os.path.join(rw, "Cargo.lock"))   # untracked in the repository
        workers.append((vw, rw))
    import threading
    lock = threading.Lock()
    def worker(w):
        vw, rw = workers[w]
        for mid in todo[w::jobs]:
            m = index[mid]
            sh(f"git -C {rw} checkout -q -- .")
            a = sh(f"git -C {rw} apply {os.path.join(outdir, mid + '.diff')}")
            r = {}
            if a.returncode != 0:
                r = dict(error="apply failed")
            else:
                env = dict(os.environ, VERIF_REPO=rw, VERIF_JOBS="6")
                for c in m["checks"]:
                    p = sh(f"{vw}/bin/check {c} quick", cwd=vw, env=env)
                    vio = [l for l in p.stdout.splitlines() if l.startswith("VIOLATION")]
                    r[c] = ("nfi" if vio and "no-failing-input-found" in vio[0] else ("input" if vio else ("ok" if p.returncode == 0 else "error")))
                    if vio and "no-failing-input-found" not in vio[0]:
                        break          # a failing input is enough
            sh(f"git -C {rw} checkout -q -- .")
            with lock:
                res[mid] = r
                json.dump(res, open(res_path, "w"), indent=1)
                print(mid, m["old"][:60], "=>", m["new"][:60], r, flush=True)
    with ThreadPoolExecutor(max_workers=jobs) as ex:
        list(ex.map(worker, range(jobs)))
    for (vw, rw) in workers:
        sh(f"git -C {REPO} worktree remove --force {rw}")
        shutil.rmtree(vw, ignore_errors=True)

def report(outdir):
    index = {m["id"]: m for m in json.load(open(os.path.join(outdir, "index.json")))}
    s = json.load(open(os.path.join(outdir, "suite.json")))
    c = json.load(open(os.path.join(outdir, "checks.json"))) if os.path.exists(os.path.join(outdir, "checks.json")) else {}
    from collections import Counter
    print("suite:", dict(Counter(v["status"] for v in s.values())))
    cls = Counter()
    for mid, r in c.items():
        vals = set(r.values())
        k = "input" if "input" in vals else ("nfi" if "nfi" in vals else "missed")
        cls[k] += 1
        if k != "input":
            m = index[mid]
            print(f"{k:7s} {mid}: {m['file']}:{m['line']}  {m['old']}  =>  {m['new']}   {r}")
    print("checks on suite-survivors:", dict(cls))

if __name__ == "__main__":
    cmd = sys.argv[1]
    if cmd == "gen":
        gen(sys.argv[2], int(sys.argv[3]) if len(sys.argv) > 3 else 12)
    elif cmd == "suite":
        suite(sys.argv[2], int(sys.argv[3]) if len(sys.argv) > 3 else 6)
    elif cmd == "check":
        check(sys.argv[2], int(sys.argv[3]) if len(sys.argv) > 3 else 10 ** 6)
    else:
        report(sys.argv[2])
