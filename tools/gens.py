"""Case generators and property oracles. Every random choice comes from one
random.Random(seed); enumerations are deterministic. A generator returns a list
of case lines; the oracle of a property looks only at the *implementation's*
output for a case and says whether it contradicts the property."""
import random
from vlib import hexs, parse_case

# --------------------------------------------------------------------------
# C18
# --------------------------------------------------------------------------
def gen_c18(tier, rng):
    cases = []
    maxlen = 64
    aligns = [(0, 0), (1, 0), (0, 3), (7, 5)] if tier == "quick" else [(a, b) for a in range(8) for b in range(8)]
    k = 0
    def base(n, salt):
        return bytes(((i * 37 + salt * 11 + 5) % 251) + 1 for i in range(n))
    for n in range(maxlen + 1):
        x = base(n, n)
        variants = [(x, x)]
        for pos in range(n):
            y = bytearray(x)
            y[pos] ^= 0x40 if pos % 2 else 0x01
            variants.append((x, bytes(y)))
        for (a, b) in variants:
            picks = aligns if tier != "quick" else [aligns[k % len(aligns)]]
            if tier != "quick" and n > 24:
                picks = [aligns[(k * 7) % len(aligns)], aligns[(k * 13 + 5) % len(aligns)]]
            for (ax, ay) in picks:
                cases.append(f"iseq x={hexs(a)} y={hexs(b)} ax={ax} ay={ay}")
            k += 1
    # different lengths
    for n in range(0, 20):
        for m in range(0, 20):
            if n != m:
                cases.append(f"iseq x={hexs(base(n, 1))} y={hexs(base(m, 1))} ax={n % 8} ay={m % 8}")
    # both operands flush against guard pages (right: over-read faults; left: under-read faults)
    for n in range(maxlen + 1):
        x = base(n, 3)
        for fx, fy in ((2, 2), (1, 1), (2, 1), (1, 2)):
            cases.append(f"iseq x={hexs(x)} y={hexs(x)} fx={fx} fy={fy}")
            if n:
                y = bytearray(x); y[n - 1] ^= 0x80
                cases.append(f"iseq x={hexs(x)} y={hexs(bytes(y))} fx={fx} fy={fy}")
    # is_prefix / is_suffix: needle lengths vs haystack lengths, equal and one-byte differences
    hl = range(0, 40) if tier == "quick" else range(0, 66)
    for hn in hl:
        h = base(hn, 7)
        nls = sorted(set([0, 1, 2, 3, 4, 5, 7, 8, 9, hn - 1, hn, hn + 1, hn // 2]))
        for nn in nls:
            if nn < 0:
                continue
            if nn <= hn:
                pre = h[:nn]; suf = h[hn - nn:]
            else:
                pre = h + base(nn - hn, 9); suf = base(nn - hn, 9) + h
            for fl in ((0, 0), (2, 2)):
                cases.append(f"ispre x={hexs(h)} y={hexs(pre)} ax={hn % 8} ay={nn % 8} fx={fl[0]} fy={fl[1]}")
                cases.append(f"issuf x={hexs(h)} y={hexs(suf)} ax={hn % 8} ay={nn % 8} fx={fl[0]} fy={fl[1]}")
            for pos in sorted(set([0, nn // 2, nn - 2, nn - 1])):
                if 0 <= pos < nn:
                    p2 = bytearray(pre); p2[pos] ^= 0x10
                    s2 = bytearray(suf); s2[pos] ^= 0x10
                    cases.append(f"ispre x={hexs(h)} y={hexs(bytes(p2))} ax={pos % 8} ay={nn % 8}")
                    cases.append(f"issuf x={hexs(h)} y={hexs(bytes(s2))} ax={pos % 8} ay={nn % 8}")
    # every pair of operands of 0..3 bytes over {0x60,0x61,0x62,0x63} (differences 1^2^3 = 0, a+b = b+a, ...): folds of
    # per-byte differences with ^ or + instead of | are exact on single differences only  (seeded change C18-d)
    small = words(bytes([0x60, 0x61, 0x62, 0x63]), 3)
    for xi, xx in enumerate(small):
        for yi, yy in enumerate(small):
            if tier == "quick" and len(xx) == 3 and len(yy) == 3 and (xi * 7 + yi) % 3:
                continue
            if len(xx) == len(yy):
                cases.append(f"iseq x={hexs(xx)} y={hexs(yy)} ax={xi % 8} ay={yi % 8}")
            if len(yy) >= 2:
                cases.append(f"ispre x={hexs(xx + b'zz')} y={hexs(yy)} ax={xi % 8} ay={yi % 8}")
                cases.append(f"issuf x={hexs(b'zz' + xx)} y={hexs(yy)} ax={xi % 8} ay={yi % 8}")
    for (xx, yy) in ((bytes([0x80, 0x00]), bytes([0x00, 0x80])), (bytes([0xff, 0x00, 0xff]), bytes([0x00, 0xff, 0x00])),
                     (bytes([1, 2, 3, 0]), bytes([0, 0, 0, 0])), (bytes([0x7f, 0x80, 0xff]), bytes([0x80, 0x7f, 0xff]))):
        for op in ("iseq", "ispre", "issuf"):
            cases.append(f"{op} x={hexs(xx)} y={hexs(yy)}")
            cases.append(f"{op} x={hexs(xx + xx)} y={hexs(yy)}")
    # the second operand EXTENDS the first (the haystack is a proper prefix / suffix of the needle): must be false
    for n in (0, 1, 2, 3, 4, 5, 8, 17):
        x0 = base(n, 11)
        for extra in (b"a", b"zz", base(5, 2)):
            for op in ("ispre", "issuf", "iseq"):
                cases.append(f"{op} x={hexs(x0)} y={hexs(x0 + extra)} ax={n % 8} ay={(n + 3) % 8}")
                cases.append(f"{op} x={hexs(x0)} y={hexs(extra + x0)} ax={n % 8} ay={(n + 5) % 8}")
    # aliasing operands: both slices are views of ONE buffer (same start and different lengths, empty views,
    # overlapping windows of a periodic buffer, the buffer against itself)  (seeded change C18-b)
    for n in (0, 1, 2, 3, 4, 5, 7, 8, 9, 16, 17, 33):
        for buf in (base(n, 5), bytes([0x61]) * n, (b"ab" * n)[:n]):
            for off in sorted(set([0, 1, 2, n // 2, n - 1, n])):
                for yl in sorted(set([0, 1, 2, n - off, n - off - 1, (n - off) // 2])):
                    if 0 <= off <= n and 0 <= yl <= n - off:
                        y = buf[off:off + yl]
                        for op in ("iseq", "ispre", "issuf"):
                            cases.append(f"{op} x={hexs(buf)} y={hexs(y)} al={off} ax={(n + off) % 8}")
    # seeded random
    nrand = 300 if tier == "quick" else 5000
    for _ in range(nrand):
        n = rng.randrange(0, 80)
        x = bytes(rng.randrange(256) for _ in range(n))
        y = bytearray(x)
        if n and rng.random() < 0.6:
            for _ in range(rng.randrange(1, 3)):
                y[rng.randrange(n)] = rng.randrange(256)
        op = rng.choice(["iseq", "ispre", "issuf"])
        if op != "iseq" and rng.random() < 0.7:
            m = rng.randrange(0, n + 1)
            y = y[:m] if op == "ispre" else y[n - m:]
        cases.append(f"{op} x={hexs(x)} y={hexs(bytes(y))} ax={rng.randrange(64)} ay={rng.randrange(64)} fx={rng.choice([0,0,1,2])} fy={rng.choice([0,0,1,2])}")
    return cases

def oracle_c18(op, kv, res, trace, flags):
    x = bytes.fromhex(kv.get("x", "")); y = bytes.fromhex(kv.get("y", ""))
    want = {"iseq": x == y, "ispre": x.startswith(y), "issuf": x.endswith(y)}[op]
    if res != ("true" if want else "false"):
        return f"{op} returned {res}, slice comparison says {want}"
    if flags:
        return f"{op} load outside its slices: {flags}"
    return None

def nontrivial_c18(op, kv):
    return len(kv.get("x", "")) >= 4  # at least two bytes: exercises a multi-byte load

# --------------------------------------------------------------------------
# C19
# --------------------------------------------------------------------------
RANKERS = ["default", "const0", "const255", "id", "rev"]

def seeded_rankers(rng, k):
    out = []
    for _ in range(k):
        t = bytes(rng.randrange(256) for _ in range(256))
        out.append("tbl:" + t.hex())
    # a ranker that makes two chosen bytes the most common, all else rare
    t = bytearray([0] * 256); t[ord("a")] = 255; t[ord("b")] = 254
    out.append("tbl:" + bytes(t).hex())
    return out

def gen_c19(tier, rng):
    cases = []
    rankers = RANKERS + seeded_rankers(rng, 2 if tier == "quick" else 6)
    lens = list(range(0, 40)) + [63, 64, 100, 128, 200, 253, 254, 255, 256, 257, 258, 300, 511, 600]
    if tier != "quick":
        lens = list(range(0, 601))
    for n in lens:
        shapes = [
            bytes([97] * n),                                   # single letter
            bytes([97 + (i % 2) for i in range(n)]),           # two letters
            bytes([i % 256 for i in range(n)]),                # all distinct (mod 256)
            bytes([255 - (i % 256) for i in range(n)]),
            bytes([97] * max(0, n - 1) + [0] * min(1, n)),     # rare byte last
            bytes(rng.randrange(256) for _ in range(n)),
        ]
        for si, x in enumerate(shapes):
            rs = rankers if (tier != "quick" or n < 8 or n in (254, 255, 256, 257, 300)) else [rankers[(n + si) % len(rankers)]]
            for r in rs:
                cases.append(f"pair rank={r} x={hexs(x)}")
    # with_indices: all (i1,i2) on selected needle lengths
    step = 1 if tier != "quick" else 5
    for n in [0, 1, 2, 3, 255, 256, 300]:
        x = bytes([(i * 7) % 256 for i in range(n)])
        idxs = sorted(set(list(range(0, 256, step)) + [0, 1, 2, 3, 4, 253, 254, 255, n - 1, n, n + 1]) & set(range(256)))
        for i1 in idxs:
            for i2 in idxs:
                if tier == "quick" and n >= 255 and (i1 % 25 and i2 % 25) and abs(i1 - i2) > 1:
                    continue
                cases.append(f"pairidx x={hexs(x)} i1={i1} i2={i2}")
    # finders built from a pair report the pair they were given (portable, sse2, avx2; neon/simd128 in the emulated pass)
    for n in [2, 3, 17, 255, 256, 300]:
        x = bytes([(i * 7) % 256 for i in range(n)])
        for (i1, i2) in [(0, 1), (1, 0), (n - 1, 0), (0, n - 1), (min(n - 1, 254), min(n - 2, 253)), (min(n - 1, 255), 0), (1, 1), (n, 0)]:
            if 0 <= i1 <= 255 and 0 <= i2 <= 255:
                for isa in ("portable", "sse2", "avx2"):
                    cases.append(f"pppair isa={isa} x={hexs(x)} i1={i1} i2={i2}")
    # needles with repeated bytes, pairs in both orders (both offsets may select the same byte value)
    for x in (b"foobar", b"aaaa", b"abab", b"zzzzzzzzzzzzzzzzzzzzzzzzzzzzzzzzzzzzzzzz", bytes([0, 0xff, 0, 0xff, 0x80, 0x80])):
        for i1 in range(len(x) if len(x) < 8 else 4):
            for i2 in range(len(x) if len(x) < 8 else 4):
                for isa in ("portable", "sse2", "avx2"):
                    cases.append(f"pppair isa={isa} x={hexs(x)} i1={i1} i2={i2}")
    # Finder::new(needle) (i1 = i2 = 255 is the marker): the pair of Pair::new, reported back by pair()
    for x in (b"", b"a", b"ab", b"aab", b"hello world", bytes(range(40)), b"z" * 300, bytes([(i * 7) % 256 for i in range(300)])):
        for isa in ("portable", "sse2", "avx2"):
            cases.append(f"pppair isa={isa} x={hexs(x)} i1=255 i2=255")
    return cases

def oracle_c19(op, kv, res, trace, flags):
    x = bytes.fromhex(kv.get("x", ""))
    if op == "pair":
        if len(x) < 2:
            return None if res == "None" else f"Pair::with_ranker on a needle of {len(x)} bytes returned {res}, expected None"
        m = __import__("re").match(r"^Some\((\d+),(\d+)\)$", res)
        if not m:
            return f"Pair::with_ranker on a needle of {len(x)} bytes returned {res}"
        i1, i2 = int(m.group(1)), int(m.group(2))
        if i1 == i2 or i1 >= len(x) or i2 >= len(x) or i1 > 254 or i2 > 254:
            return f"Pair::with_ranker returned invalid offsets ({i1},{i2}) for a needle of {len(x)} bytes"
        return None
    if op == "pairidx":
        i1, i2 = int(kv["i1"]), int(kv["i2"])
        ok = i1 != i2 and i1 < len(x) and i2 < len(x)
        want = f"Some({i1},{i2})" if ok else "None"
        return None if res == want else f"Pair::with_indices(len {len(x)}, {i1}, {i2}) returned {res}, expected {want}"
    if op == "pppair" and kv["i1"] == "255" and kv["i2"] == "255":
        if len(x) < 2:
            return None if res == "NoPair" else f"{kv.get('isa')} packedpair::Finder::new on a needle of {len(x)} bytes gave {res}"
        m = __import__("re").match(r"^Some\((\d+),(\d+)\)$", res)
        if not m or m.group(1) == m.group(2) or int(m.group(1)) >= len(x) or int(m.group(2)) >= len(x) or max(int(m.group(1)), int(m.group(2))) > 254:
            return f"{kv.get('isa')} packedpair::Finder::new(..).pair() reported {res} for a needle of {len(x)} bytes"
        return None
    if op == "pppair":
        i1, i2 = int(kv["i1"]), int(kv["i2"])
        ok = i1 != i2 and i1 < len(x) and i2 < len(x)
        want = f"Some({i1},{i2})" if ok else "NoPair"
        return None if res == want else f"{kv.get('isa')} packedpair::Finder::with_pair(.., ({i1},{i2})).pair() reported {res}, expected {want}"
    return None

def nontrivial_c19(op, kv):
    return len(kv.get("x", "")) >= 6

# --------------------------------------------------------------------------
# C01 / C02 / C07: memchr family on one backend
# --------------------------------------------------------------------------
NEEDLE_SETS = {
    1: [[0x61], [0x00], [0x80], [0xFF]],
    2: [[0x61, 0x62], [0x00, 0xFF], [0x80, 0x80], [0xFF, 0x7F]],
    3: [[0x61, 0x62, 0x63], [0x00, 0x80, 0xFF], [0x61, 0x61, 0x61], [0x01, 0xFE, 0x80]],
}
BACKENDS_X86 = ["swar", "sse2", "avx2", "top", "top:sse2", "top:none"]

def interesting_positions(n, a):
    ps = set([0, 1, 2, n // 2, n - 1, n - 2])
    for B in (8, 16, 32):
        c0 = B - (a % B)
        e0 = n - ((a + n) % B)         # aligned-down end
        for U in (1, 2, 4):
            for d in (-1, 0, 1):
                ps.update([c0 + d, c0 + U * B + d, c0 + 2 * U * B + d, e0 + d, e0 - U * B + d, e0 - 2 * U * B + d])
        for d in (-1, 0, 1):
            ps.update([B + d, n - B + d, n - 2 * B + d, 2 * B + d])
    return sorted(p for p in ps if 0 <= p < n)

def mk_hay(n, filler, marks):
    h = bytearray([filler]) * n
    for (p, b) in marks:
        if 0 <= p < n:
            h[p] = b
    return bytes(h)

def gen_memchr(op, tier, rng, backends=BACKENDS_X86):
    """op in find|rfind|count"""
    cases = []
    quick = tier == "quick"
    if quick:
        lens = sorted(set(list(range(0, 50)) + [63, 64, 65, 79, 80, 95, 96, 97, 127, 128, 129, 130, 159, 160, 161, 191,
                                                   192, 200, 255, 256, 257, 258, 287, 288, 300, 326]))
        aligns = [0, 1, 7, 15, 17, 31, 33, 63]
    else:
        lens = list(range(0, 331))
        aligns = list(range(64))
    arities = [1] if op == "count" else [1, 2, 3]
    k = 0
    for be0 in backends:
        be = be0.split(":")[0]
        cpu = (" cpu=" + be0.split(":")[1]) if ":" in be0 else ""
        for ar in arities:
            sets = NEEDLE_SETS[ar]
            for n in lens:
                al = aligns if (not quick) else [aligns[(n + j * 3 + ar) % len(aligns)] for j in range(2)]
                if not quick and n > 70:
                    al = [aligns[(n * 7 + j * 11 + ar) % 64] for j in range(6)]
                for a in al:
                    poss = interesting_positions(n, a)
                    if quick and len(poss) > 10:
                        poss = [poss[(k + j * 5) % len(poss)] for j in range(8)]
                    elif not quick and n > 70 and len(poss) > 24:
                        poss = [poss[(k + j * 3) % len(poss)] for j in range(24)]
                    ns = sets[k % len(sets)]
                    nshex = hexs(bytes(ns))
                    filler = 0x78
                    # no match
                    cases.append(f"{op} be={be}{cpu} ns={nshex} a={a} h={hexs(mk_hay(n, filler, []))}")
                    for pi, p in enumerate(sorted(set(poss))):
                        b = ns[(pi + k) % len(ns)]
                        marks = [(p, b)]
                        # a second occurrence on the far side, so that "first"/"last" matters
                        if pi % 3 == 0:
                            q = (n - 1 - (pi % 5)) if op != "rfind" else (pi % 5)
                            marks.append((q, ns[(pi + 1) % len(ns)]))
                        if pi % 4 == 1:
                            marks.append((p + (1 if op != "rfind" else -1), ns[0]))
                        cases.append(f"{op} be={be}{cpu} ns={nshex} a={a} h={hexs(mk_hay(n, filler, marks))}")
                    k += 1
                # dense patterns (matter for count and for mask->offset conversion)
                a = aligns[(n * 5 + ar) % len(aligns)]
                ns = sets[(n + ar) % len(sets)]
                nshex = hexs(bytes(ns))
                for dens in ([1, 2, 3, 5] if (quick and n % 4 == 0) or not quick else []):
                    h = bytes((ns[i % len(ns)] if i % dens == 0 else 0x78) for i in range(n))
                    cases.append(f"{op} be={be}{cpu} ns={nshex} a={a} h={hexs(h)}")
                if n % 8 == 0 or not quick:
                    # flush against guard pages
                    for fl in (1, 2):
                        aa = 0 if fl == 1 else (4096 - n) % 4096
                        h = mk_hay(n, 0x78, [(n - 1, ns[0])] if n and op != "rfind" else [(0, ns[0])] if n else [])
                        cases.append(f"{op} be={be}{cpu} ns={nshex} a={aa} fl={fl} h={hexs(h)}")
                        cases.append(f"{op} be={be}{cpu} ns={nshex} a={aa} fl={fl} h={hexs(mk_hay(n, 0x78, []))}")
    # seeded random, longer haystacks
    nr = 400 if quick else 6000
    for _ in range(nr):
        be0 = rng.choice(backends)
        be = be0.split(":")[0]
        cpu = (" cpu=" + be0.split(":")[1]) if ":" in be0 else ""
        ar = 1 if op == "count" else rng.choice([1, 2, 3])
        ns = [rng.choice([0, 0x80, 0xFF, 0x61, 0x62, rng.randrange(256)]) for _ in range(ar)]
        n = rng.choice([rng.randrange(0, 100), rng.randrange(0, 700), rng.randrange(0, 4096 if not quick else 1200)])
        dens = rng.choice([0, 0, 1, 2, 8, 64, 500])
        h = bytearray(rng.randrange(256) for _ in range(n))
        for i in range(n):
            if h[i] in ns:
                h[i] = 0x78 if 0x78 not in ns else 0x79
        if dens and n:
            for _ in range(max(1, n // dens)):
                h[rng.randrange(n)] = rng.choice(ns)
        cases.append(f"{op} be={be}{cpu} ns={hexs(bytes(ns))} a={rng.randrange(4096)} h={hexs(bytes(h))}")
    # a gap, then a run of 64..300 consecutive matching bytes (whole vectors / whole unrolled blocks in which EVERY lane
    # matches), then a gap: "any lane set" tests that are only exact for partial matches  (seeded change C06-f)
    for j, (g1, run, g2) in enumerate([(33, 64, 33), (40, 200, 40), (64, 128, 1), (1, 128, 70), (70, 300, 70), (96, 256, 35), (35, 96, 100)]):
        for ar in arities:
            ns = NEEDLE_SETS[ar][0]
            h = bytes([0x78]) * g1 + bytes(ns[i % len(ns)] for i in range(run)) + bytes([0x78]) * g2
            for be0 in backends:
                be = be0.split(":")[0]
                cpu = (" cpu=" + be0.split(":")[1]) if ":" in be0 else ""
                for a in ((0, 1, 31, 33) if not quick else ((j * 7) % 64, (j * 13 + 1) % 64)):
                    cases.append(f"{op} be={be}{cpu} ns={hexs(bytes(ns))} a={a} h={hexs(h)}")
    # raw-pointer forms (find_raw / rfind_raw / count_raw of the One/Two/Three searchers): sub-ranges [so, eo) of a
    # buffer with matches planted just outside the range, empty ranges and start > end (must be None / 0)
    raw_be = [b for b in backends if ":" not in b and b != "top"]
    for j, n in enumerate([0, 1, 2, 15, 16, 17, 31, 32, 33, 40, 63, 64, 65, 100, 130] * (1 if quick else 6)):
        ar = 1 if op == "count" else 1 + (j % 3)
        ns = NEEDLE_SETS[ar][j % len(NEEDLE_SETS[ar])]
        for (so, eo) in sorted(set([(0, n), (1, n), (0, max(0, n - 1)), (min(3, n), max(0, n - 2)), (n // 2, n // 2), (n, n),
                                    (min(n, 5), min(n, 4)), (n, 0), (min(n, 17), n)])):
            if so > n or eo > n:
                continue
            h = bytearray([0x78]) * n
            for q in (so - 1, eo, so, eo - 1, (so + eo) // 2):
                if 0 <= q < n and rng.random() < 0.6:
                    h[q] = ns[q % len(ns)]
            be = raw_be[(j + so + eo) % len(raw_be)]
            cases.append(f"{op} be={be} raw=1 so={so} eo={eo} ns={hexs(bytes(ns))} a={rng.randrange(64)} h={hexs(bytes(h))}")
    # bit-trick neighbours: fillers that differ from a needle in one bit / by one (borrow and carry chains of the
    # SWAR zero-byte test, sign bits of the vector compares), few or no real matches, every short length
    lens2 = list(range(0, 41)) + [47, 48, 63, 64, 65, 100, 129]
    for j, n in enumerate(lens2 * (1 if quick else 8)):
        ar = 1 if op == "count" else 1 + (j % 3)
        nb = rng.choice([0x30, 0x0a, 0x00, 0x80, 0xff, 0x61, 0x7f, 0x01])
        ns = [nb, nb ^ 0x55, (nb + 7) & 0xff][:ar]
        if j % 5 == 0 and ar > 1:
            ns[-1] = ns[0]                                  # repeated needle bytes
        near = [b for x in ns for b in (x ^ 1, x ^ 0x80, (x + 1) & 0xff, (x - 1) & 0xff, x ^ 0xff) if b not in ns] or [0x78]
        h = bytearray(rng.choice(near) for _ in range(n))
        if n and j % 3:
            for _ in range(1 + (j % 2)):
                h[rng.randrange(n)] = rng.choice(ns)
        for be0 in backends:
            be = be0.split(":")[0]
            cpu = (" cpu=" + be0.split(":")[1]) if ":" in be0 else ""
            cases.append(f"{op} be={be}{cpu} ns={hexs(bytes(ns))} a={rng.randrange(64)} h={hexs(bytes(h))}")
    return cases

def oracle_memchr(op, kv, res, trace, flags):
    if op == "avail":
        if res in ("?", "UnknownOp"):
            return None
        ok = not ((kv["isa"] == "avx2" and kv.get("cpu") in ("sse2", "none")) or (kv["isa"] == "sse2" and kv.get("cpu") == "none"))
        want = "1111" if ok else "0000"
        return None if res == want else f"{kv['isa']} searchers available = {res} under detection outcome {kv.get('cpu', 'host')}, expected {want}"
    ns = bytes.fromhex(kv["ns"]); h = bytes.fromhex(kv.get("h", ""))
    idx = [i for i, b in enumerate(h) if b in ns]
    if kv.get("raw") == "1":      # raw-pointer form: only [so, eo) may be searched (or even read)
        so, eo = int(kv["so"]), int(kv["eo"])
        idx = [i for i in idx if so <= i < eo]
    if op == "find":
        want = f"Some({idx[0]})" if idx else "None"
    elif op == "rfind":
        want = f"Some({idx[-1]})" if idx else "None"
    else:
        want = str(len(idx))
    if res != want:
        return f"{op}[{kv.get('be')}] returned {res}, expected {want} (len {len(h)}, needles {kv['ns']})"
    if flags:
        return f"{op}[{kv.get('be')}] load outside the haystack or misaligned: {flags}"
    return None

def nontrivial_memchr(op, kv):
    return op != "avail" and len(kv.get("h", "")) >= 32   # at least 16 bytes: reaches vector code

def gen_c01(tier, rng):
    # constructors of the x86 searchers report availability according to the (possibly forced) detection outcome
    av = [f"avail isa={isa}" + (f" cpu={cpu}" if cpu else "") for isa in ("avx2", "sse2") for cpu in ("", "sse2", "none")]
    return gen_memchr("find", tier, rng) + av
def gen_c02(tier, rng): return gen_memchr("rfind", tier, rng)
def gen_c07(tier, rng):
    # one-shot counts plus count() on partially consumed iterators (histories that contain C)
    its = [c for c in gen_iter(tier, rng) if "C" in c.split("ops=")[1]]
    extra = []
    for j in range(120 if tier == "quick" else 1500):
        be0 = BACKENDS_X86[j % len(BACKENDS_X86)]
        be = be0.split(":")[0]
        cpu = (" cpu=" + be0.split(":")[1]) if ":" in be0 else ""
        n = rng.randrange(20, 260)
        dens = rng.choice([1, 2, 3, 5, 9])
        h = bytes((0x61 if i % dens == 0 else 0x78) for i in range(n))
        nm = (n + dens - 1) // dens
        pre = "".join(rng.choice("NB") for _ in range(rng.randrange(0, min(nm, 25) + 1)))
        extra.append(f"iter be={be}{cpu} ns=61 a={rng.randrange(64)} h={hexs(h)} ops={pre}C{rng.choice(['', 'NC', 'BC', 'NBC'])}")
    # bit-trick neighbours: haystacks over {n, n^1, n^0x80, n+1, n-1, 0x00, 0xff} at every short length and around
    # the word / vector sizes, on every backend (word-at-a-time counting is exact as a zero-byte TEST but not per byte:
    # seeded changes C07-b, C09-a)
    near = []
    lens = list(range(0, 41)) + [47, 48, 63, 64, 65, 100]
    for j, n in enumerate(lens * (2 if tier == "quick" else 12)):
        nb = rng.choice([0x30, 0x0a, 0x00, 0x80, 0xff, 0x61, 0x7f])
        alpha = [nb, nb ^ 1, nb ^ 0x80, (nb + 1) & 0xff, (nb - 1) & 0xff, 0x00, 0xff]
        w = rng.choice([[5, 5, 1, 1, 1, 0, 0], [3, 3, 3, 1, 1, 1, 1], [1, 8, 1, 0, 0, 0, 0], [1, 1, 8, 0, 0, 1, 1]])
        h = bytes(rng.choices(alpha, weights=w)[0] for _ in range(n))
        for be0 in BACKENDS_X86:
            be = be0.split(":")[0]
            cpu = (" cpu=" + be0.split(":")[1]) if ":" in be0 else ""
            near.append(f"count be={be}{cpu} ns={nb:02x} a={rng.randrange(64)} h={hexs(h)}")
        if n >= 2:
            pre = "".join(rng.choice("NB") for _ in range(rng.randrange(0, 4)))
            near.append(f"iter be={BACKENDS_X86[j % len(BACKENDS_X86)].split(':')[0]} ns={nb:02x} a={rng.randrange(64)} h={hexs(h)} ops={pre}C")
    # long haystacks with a match at the same offset of every word / vector (periods 1, 2, 4, 8, 16, 32) for more than
    # 256 words / vectors: per-lane partial counters that are summed too rarely overflow  (seeded change C07-d)
    dense = []
    for j, (n, per) in enumerate([(2047, 1), (2048, 1), (2049, 8), (2600, 8), (4100, 4), (4100, 2), (8300, 1), (8300, 16), (8300, 32), (9000, 8)]):
        for off in (0, 3):
            h = bytes((0x61 if (i % per) == off % per else 0x78) for i in range(n))
            for be0 in BACKENDS_X86:
                be = be0.split(":")[0]
                cpu = (" cpu=" + be0.split(":")[1]) if ":" in be0 else ""
                if tier == "quick" and (j + len(be0)) % 2:
                    continue
                dense.append(f"count be={be}{cpu} ns=61 a={(j * 5 + off) % 64} h={hexs(h)}")
                dense.append(f"iter be={be}{cpu} ns=61 a={(j * 3 + off) % 64} h={hexs(h)} ops=NBNC")
    return gen_memchr("count", tier, rng) + its + extra + near + dense

def oracle_c07(op, kv, res, trace, flags):
    return oracle_iter(op, kv, res, trace, flags) if op == "iter" else oracle_memchr(op, kv, res, trace, flags)

def nontrivial_c07(op, kv):
    return nontrivial_iter(op, kv) if op == "iter" else nontrivial_memchr(op, kv)

# --------------------------------------------------------------------------
# C06 (and the iterator part of C07): iterator histories
# --------------------------------------------------------------------------
def all_strings(alphabet, maxlen):
    out = [""]
    frontier = [""]
    for _ in range(maxlen):
        frontier = [s + c for s in frontier for c in alphabet]
        out += frontier
    return out

def gen_iter(tier, rng, backends=BACKENDS_X86, with_count=True):
    cases = []
    quick = tier == "quick"
    nmax = 6 if quick else 9
    k = 0
    # exhaustive: every match set of every short haystack, every N/B history up to matches + 2 calls
    for n in range(0, nmax + 1):
        for mask in range(1 << n):
            m = bin(mask).count("1")
            h = bytes((0x61 if (mask >> i) & 1 else 0x78) for i in range(n))
            hist = all_strings("NB", m + 2)
            if quick:
                hist = [s for s in hist if len(s) >= m] or hist
            be0 = backends[k % len(backends)]; k += 1
            be = be0.split(":")[0]
            cpu = (" cpu=" + be0.split(":")[1]) if ":" in be0 else ""
            for ops in hist:
                cases.append(f"iter be={be}{cpu} ns=61 a={(k * 5) % 64} h={hexs(h)} ops={ops or 'S'}")
    # a LONE match anywhere in a haystack of several unrolled blocks, approached from the back first: whatever a reverse
    # search skips (a vector of a group, a block, a tail) is then both missed by next_back and found by a later next
    # (seeded change C06-k: an 8-vector skip loop that never looks at the top vector of a group)
    for (L, a0) in (((300, 0), (300, 9), (560, 0), (560, 37)) if quick else ((300, 0), (300, 9), (333, 23), (560, 0), (560, 37), (1100, 5))):
        for be0 in backends:
            be = be0.split(":")[0]
            cpu = (" cpu=" + be0.split(":")[1]) if ":" in be0 else ""
            for pos in range(0, L, 8 if quick else 3):
                pos2 = min(L - 1, pos + (k % 7))
                h = bytearray([0x78]) * L
                h[pos2] = 0x61
                k += 1
                cases.append(f"iter be={be}{cpu} ns=61 a={a0} h={hexs(bytes(h))} ops={'BN' if k % 2 else 'BBNS'}")
    # long haystacks: ends meeting inside one vector, sparse and dense matches, S and C interleaved
    nl = 250 if quick else 3000
    for j in range(nl):
        be0 = backends[j % len(backends)]
        be = be0.split(":")[0]
        cpu = (" cpu=" + be0.split(":")[1]) if ":" in be0 else ""
        ar = [1, 2, 3][(j // len(backends)) % 3] if j % 2 == 0 else rng.choice([1, 2, 3])
        ns = [[0x61], [0x61, 0x00], [0xFF, 0x80, 0x61]][ar - 1]
        n = rng.choice([rng.randrange(16, 40), rng.randrange(32, 100), rng.randrange(64, 200)])
        dens = rng.choice([1, 2, 3, 7, 16, 40, 1000])
        h = bytearray([0x78]) * n
        if dens == 1:
            h = bytearray(ns[i % ar] for i in range(n))
        else:
            for _ in range(max(1, n // dens)):
                h[rng.randrange(n)] = rng.choice(ns)
        if j % 7 == 0:    # exactly two matches inside one vector-sized window
            h = bytearray([0x78]) * n
            p0 = rng.randrange(0, n - 3)
            h[p0] = ns[0]; h[p0 + rng.randrange(1, 3)] = ns[-1]
        nm = sum(1 for x in h if x in ns)
        alphabet = "NB" + ("S" if (j // 7) % 2 else "") + ("C" if (ar == 1 and with_count and j % 4 < 2) else "")
        L = min(nm + 3, 40)
        ops = "".join(rng.choice(alphabet) for _ in range(L))
        if j % 5 == 0:
            ops = "".join(rng.choice("NB") for _ in range(min(nm, 30))) + "NBNB"
        cases.append(f"iter be={be}{cpu} ns={hexs(bytes(ns))} a={rng.randrange(64)} h={hexs(bytes(h))} ops={ops}")
        if j % 4 == 1 and ar > 1:
            # repeated needle bytes in every equality pattern: (a,a), (a,b,a), (a,a,b), (a,b,b), (a,a,a)
            pats = [[0x61, 0x61]] if ar == 2 else [[0x61, 0x62, 0x61], [0x61, 0x61, 0x62], [0x61, 0x62, 0x62], [0x61, 0x61, 0x61], [0x00, 0xff, 0x00]]
            ns2 = pats[(j // 4) % len(pats)]
            h2 = bytearray(h)
            for q in range(0, len(h2), 3):
                h2[q] = [0x61, 0x62, 0x00, 0xff, 0x78][(q // 3 + j) % 5]
            nm2 = sum(1 for x in h2 if x in ns2)
            ops2 = "".join(rng.choice("NB" + ("S" if j % 8 == 1 else "")) for _ in range(min(nm2 + 3, 40)))
            cases.append(f"iter be={be}{cpu} ns={hexs(bytes(ns2))} a={rng.randrange(64)} h={hexs(bytes(h2))} ops={ops2}")
        if j % 9 == 0:
            g1, run, g2 = [(40, 200, 40), (33, 64, 70), (70, 130, 33)][(j // 9) % 3]
            h3 = bytes([0x78]) * g1 + bytes(ns[i % len(ns)] for i in range(run)) + bytes([0x78]) * g2
            ops3 = rng.choice(["NB" * 8, "N" * 6 + "B" * 6, "B" * 5 + "N" * 5 + "S", "NNBBNNBB" + "N" * 10])
            cases.append(f"iter be={be}{cpu} ns={hexs(bytes(ns))} a={rng.randrange(64)} h={hexs(h3)} ops={ops3}")
        if j % 3 == 2:
            # bit-trick neighbours of the needle next to real matches, ends closed to a short window from both sides
            nb = ns[0]
            alpha = [nb, nb ^ 1, nb ^ 0x80, (nb + 1) & 0xff, (nb - 1) & 0xff, 0x2d]
            n4 = rng.choice([12, 20, 33, 60, 200])
            h4 = bytearray(rng.choices(alpha, weights=[3, 3, 1, 1, 1, 6])[0] for _ in range(n4))
            if n4 >= 40:
                for q in range(20, n4 - 20):
                    if q < n4 // 2 - 8 or q > n4 // 2 + 8:
                        h4[q] = 0x2d
            nm4 = sum(1 for x in h4 if x in ns)
            ops4 = "".join(rng.choice(["NNBBB", "NBNBB", "BBNNB", "NNNBBBNB"]) for _ in range(max(1, min(8, nm4 // 4 + 1))))
            cases.append(f"iter be={be}{cpu} ns={hexs(bytes(ns))} a={rng.randrange(64)} h={hexs(bytes(h4))} ops={ops4}")
        if be == "top" and j % 2 == 0:
            # memrchr_iter / memrchr2_iter / memrchr3_iter (Rev adaptor); count goes through the adaptor, so no C
            cases.append(f"iter be=top{cpu} rev=1 ns={hexs(bytes(ns))} a={rng.randrange(64)} h={hexs(bytes(h))} ops={ops.replace('C', 'S')}")
    return cases

def oracle_iter(op, kv, res, trace, flags):
    ns = bytes.fromhex(kv["ns"]); h = bytes.fromhex(kv.get("h", ""))
    dq = [i for i, b in enumerate(h) if b in ns]
    if kv.get("rev") == "1":       # memrchr_iter: the same queue, served from the other end
        dq = [-1 - i for i in reversed(dq)]
    ops = kv.get("ops", "")
    outs = res.split(";") if res != "-" else []
    if kv.get("rev") == "1":
        outs = [(f"Some({-1 - int(o[5:-1])})" if o.startswith("Some(") else o) for o in outs]
    if res.startswith("Panic") or res.startswith("CRASH"):
        return f"iterator history {ops} ended in {res}"
    if len(outs) != len(ops):
        return f"iterator history {ops}: {len(outs)} outputs"
    for j, (o, r) in enumerate(zip(ops, outs)):
        if o == "N":
            want = f"Some({dq.pop(0)})" if dq else "None"
            if r != want:
                return f"next() at step {j} of {ops} returned {r}, expected {want}"
        elif o == "B":
            want = f"Some({dq.pop()})" if dq else "None"
            if r != want:
                return f"next_back() at step {j} of {ops} returned {r}, expected {want}"
        elif o == "S":
            lo, hi = r.split("-")
            if not (int(lo) <= len(dq) and (hi == "inf" or len(dq) <= int(hi))):
                return f"size_hint() at step {j} of {ops} returned ({lo},{hi}) with {len(dq)} matches still to come"
        elif o == "C":
            if r != str(len(dq)):
                return f"count() at step {j} of {ops} returned {r}, {len(dq)} matches not yet yielded"
    if flags:
        return f"iterator load outside the haystack or misaligned: {flags}"
    return None

def nontrivial_iter(op, kv):
    return len(kv.get("ops", "")) >= 2 and len(kv.get("h", "")) >= 4

def gen_c06(tier, rng): return gen_iter(tier, rng)

# --------------------------------------------------------------------------
# substring building blocks (C12), prefilters (C11)
# --------------------------------------------------------------------------
def words(alphabet, maxlen, minlen=0):
    out = []
    frontier = [b""]
    if minlen == 0:
        out.append(b"")
    for n in range(1, maxlen + 1):
        frontier = [w + bytes([c]) for w in frontier for c in alphabet]
        if n >= minlen:
            out += frontier
    return out

def fib_word(n):
    a, b = b"b", b"a"
    while len(b) < n:
        a, b = b, b + a
    return b[:n]

def thue_morse(n):
    return bytes(0x61 + (bin(i).count("1") & 1) for i in range(n))

def structured_needles(rng, quick):
    out = []
    for u in (b"a", b"ab", b"aab", b"abc", b"abcab", b"aabaa"):
        for k in (1, 2, 3, 5, 8, 13):
            out.append(u * k)
            out.append(u * k + b"c")
            out.append(b"c" + u * k)
    for n in (3, 5, 8, 13, 21, 31, 32, 33, 34, 55, 64, 89):
        out.append(fib_word(n)); out.append(thue_morse(n))
    for n in (1, 2, 15, 16, 17, 31, 32, 33, 63, 64, 65):
        out.append(b"z" * n)
    # bytes equal mod 64 (collide in the approximate byte set of Two-Way)
    out.append(bytes([1, 65, 129, 193, 1, 65]))
    out.append(bytes([1, 65, 129, 193] * 9))
    if not quick:
        for n in (100, 144, 255, 256, 300):
            out.append(fib_word(n)); out.append(b"ab" * (n // 2) + b"c"); out.append(b"z" * n)
    seen = set(); res = []
    for x in out:
        if x not in seen:
            seen.add(x); res.append(x)
    return res

def haystacks_for(x, rng, quick):
    """haystacks built from the needle's own factors: planted matches, near-matches, periodic overlaps"""
    hs = []
    n = len(x)
    filler = b"q"
    for pre in (0, 1, 3, 14, 15, 16, 17, 31, 33, 47, 63, 64, 70):
        for post in (0, 1, 2, 15, 16, 33):
            if quick and (pre * 7 + post) % 3:
                continue
            hs.append(filler * pre + x + filler * post)
            if n >= 2:
                near = bytearray(x); near[rng.randrange(n)] ^= 0x20
                hs.append(filler * pre + bytes(near) + filler * post)          # near-match only
                hs.append(bytes(near) + filler * pre + x + filler * post)      # near-match then match
                hs.append(x[: n - 1] * 2 + filler * pre + x[1:] + x + filler * post)
    if n >= 1:
        hs.append(x * 3)
        hs.append(x[: max(1, n // 2)] * 6 + x)
        hs.append((x[:-1] if n > 1 else b"") * 4)
    return hs

def rk_collision_cases():
    cases = []
    # 2*b0 + b1 equal: (1,0) ~ (0,2); (3,1) ~ (2,3) ...
    for (x, y) in ((bytes([1, 0]), bytes([0, 2])), (bytes([3, 1]), bytes([2, 3])), (bytes([1, 0, 0]), bytes([0, 2, 0])), (bytes([1, 1, 1]), bytes([0, 3, 1]))):
        for pre in (0, 1, 5):
            h = b"\x09" * pre + y + b"\x09" * 3 + x + y
            cases.append((x, h)); cases.append((y, h)); cases.append((x, b"\x09" * pre + y + y + y))
    # needles longer than 32 bytes: bytes older than 32 positions are shifted out of the hash
    for n in (33, 40, 64):
        x = bytes((i * 7 + 3) % 251 for i in range(n))
        for k in range(1, n - 32 + 1, 3):
            y = bytearray(x); y[k - 1] ^= 0xFF                     # differs only outside the hashed tail
            h = bytes(y) + b"\x00" * 5 + x + bytes(y)
            cases.append((x, h)); cases.append((x, bytes(y) * 2 + b"\x01"))
    # hash values with the high bits set: a run of >= 31 equal bytes b followed by a byte >= 2b drives the u32 hash to
    # 2^32 - small, so the next doubling / addition wraps (it must wrap silently: wrapping_shl / wrapping_add)
    for (b, c) in ((0x20, 0x72), (0x01, 0x80), (0x7f, 0xff), (0x40, 0xff), (0x01, 0x02)):
        for run in (31, 32, 33, 45):
            x = bytes([b]) * run + bytes([c]) + b"eturn"
            cases.append((x, b"--" + x + b"--"))
            cases.append((x, bytes([b]) * (run + 7) + bytes([c]) + b"eturn" + b"!"))
            xr = bytes([c]) + bytes([b]) * run                       # reverse hashing runs right to left
            cases.append((xr, b"q" + xr + b"q" * 3))
            cases.append((b"abcdefghijklmnopqrstuvwxyzabcdefg", bytes([b]) * (run + 14) + bytes([c]) + b"abcdefghijklmnopqrstuvwxyzabcdefg"))
    return cases

def gen_blocks(tier, rng):
    quick = tier == "quick"
    cases = []
    # ---- exhaustive over {a,b} (and {a,b,c}) for Rabin-Karp fwd/rev and Shift-Or
    nx, nh = (4, 8) if quick else (6, 11)
    needles = words(b"ab", nx)
    hays = words(b"ab", nh)
    k = 0
    for x in needles:
        for h in hays:
            if quick and (k % 3) and len(h) > 5:
                k += 1; continue
            k += 1
            cases.append(f"rkfind x={hexs(x)} h={hexs(h)} a={k % 16}")
            cases.append(f"rkrfind x={hexs(x)} h={hexs(h)} a={k % 16}")
            cases.append(f"sofind x={hexs(x)} h={hexs(h)}")
    if not quick:
        for x in words(b"abc", 4):
            for h in words(b"abc", 8):
                cases.append(f"rkfind x={hexs(x)} h={hexs(h)}")
                cases.append(f"rkrfind x={hexs(x)} h={hexs(h)}")
                cases.append(f"sofind x={hexs(x)} h={hexs(h)}")
    # ---- structured needles against haystacks made of their own factors
    for x in structured_needles(rng, quick):
        for h in haystacks_for(x, rng, quick):
            cases.append(f"rkfind x={hexs(x)} h={hexs(h)} a={len(h) % 8}")
            cases.append(f"rkrfind x={hexs(x)} h={hexs(h)} a={len(h) % 8}")
            if len(x) <= 17:
                cases.append(f"sofind x={hexs(x)} h={hexs(h)}")
    for (x, h) in rk_collision_cases():
        cases.append(f"rkfind x={hexs(x)} h={hexs(h)}")
        cases.append(f"rkrfind x={hexs(x)} h={hexs(h)}")
    # Shift-Or: 15-byte needles that match, 16-byte needles are unsupported
    for n in (13, 14, 15, 16, 17, 40):
        x = bytes(0x61 + (i % 5) for i in range(n))
        for pre in (0, 1, 20):
            cases.append(f"sofind x={hexs(x)} h={hexs(b'q' * pre + x + b'q')}")
            cases.append(f"sofind x={hexs(x)} h={hexs(b'q' * pre + x[:-1] + b'!' + x)}")
    # ---- packed pair find (sse2 / avx2): all pairs on short needles, lengths around min_haystack_len
    cases += gen_pp("ppfind", tier, rng)
    return cases

def gen_pp(op, tier, rng, isas=("sse2", "avx2")):
    quick = tier == "quick"
    cases = []
    k = 0
    needles = [b"ab", b"aa", b"abc", b"aab", b"abab", b"abcde", b"xyzxyz", b"aaaaaaa", bytes(range(1, 18)),
               bytes(range(1, 33)), bytes(range(1, 34)), b"ab" * 20]
    if not quick:
        needles += [bytes((i * 5) % 251 + 1 for i in range(n)) for n in (7, 16, 31, 32, 40, 64, 255, 256, 300)]
    for isa in isas:
        B = 16 if isa == "sse2" else 32
        for x in needles:
            n = len(x)
            idxs = list(range(min(n, 6))) + [n - 1, n // 2] + ([254, 255] if n > 255 else [])
            idxs = [i for i in idxs if i <= 255]          # Pair offsets are u8
            pairs = [(i1, i2) for i1 in sorted(set(idxs)) for i2 in sorted(set(idxs)) if i1 != i2 and i1 < n and i2 < n]
            if quick and len(pairs) > 6:
                pairs = [pairs[(k + j * 3) % len(pairs)] for j in range(6)]
            pairs += [(0, 0), (min(n, 255), 0), (0, min(n, 255))][: (1 if quick else 3)]      # invalid pairs (out of range when n <= 255)
            for (i1, i2) in pairs:
                mins = max(n, max(min(i1, 255), min(i2, 255)) + 16)          # sse2 minimum
                lens = sorted(set([mins - 1, mins, mins + 1, mins + 15, mins + 16, mins + 17, mins + 31, mins + 32,
                                   mins + 33, mins + 48, max(n, max(i1, i2) + 32) - 1, max(n, max(i1, i2) + 32),
                                   max(n, max(i1, i2) + 32) + 1, mins + 80]))
                if quick:
                    lens = [lens[(k + j) % len(lens)] for j in range(5)] + [mins - 1, mins]
                for L in sorted(set(lens)):
                    if L < 0:
                        continue
                    filler = 0x71
                    # no occurrence; occurrence at chosen positions (esp. last chunk / final |x| bytes)
                    poss = [None]
                    if L >= n:
                        cand = sorted(set([0, 1, (L - n) // 2, L - n - B, L - n - 1, L - n, L - n - 15, max(0, L - mins), max(0, L - mins) + 1]))
                        poss += [p for p in cand if 0 <= p <= L - n]
                        if quick and len(poss) > 5:
                            poss = [None] + [poss[1 + (k + j * 2) % (len(poss) - 1)] for j in range(4)]
                    for p in poss:
                        h = bytearray([filler]) * L
                        # partial pair hits (both pair bytes present, rest wrong) before the match
                        if i1 < n and i2 < n and L > max(i1, i2) + 3:
                            for q in (0, 2, max(0, (p or L) - 3)):
                                if q + max(i1, i2) < L:
                                    h[q + i1] = x[i1]; h[q + i2] = x[i2]
                        if p is not None:
                            h[p:p + n] = x
                        cases.append(f"{op} isa={isa} x={hexs(x)} i1={i1} i2={i2} a={(k * 3) % 64} h={hexs(bytes(h))}")
                        k += 1
    return cases

def naive_find(h, x):
    i = h.find(x)
    return None if i < 0 else i

def oracle_blocks(op, kv, res, trace, flags):
    if op in ("twfind", "twrfind", "twnew", "twrnew"):
        return oracle_mm(op, kv, res, trace, flags)
    x = bytes.fromhex(kv.get("x", "")); h = bytes.fromhex(kv.get("h", ""))
    if flags:
        return f"{op}: load outside the slices or misaligned: {flags}"
    if op in ("rkfind", "rkrfind"):
        if kv.get("nx"):
            return None          # foreign construction needle: only memory safety is required (C05)
        i = h.find(x) if op == "rkfind" else h.rfind(x)
        want = "None" if i < 0 else f"Some({i})"
        return None if res == want else f"{op} returned {res}, naive search says {want} (|x|={len(x)}, |h|={len(h)})"
    if op == "sofind":
        if len(x) > 15:
            return None if res == "Unsupported" else f"shiftor::Finder::new accepted a needle of {len(x)} bytes: {res}"
        i = h.find(x)
        want = "None" if i < 0 else f"Some({i})"
        return None if res == want else f"shiftor find returned {res}, naive search says {want}"
    if op in ("ppfind", "ppprefilter"):
        return oracle_pp(op, kv, res)
    if op == "pfprefilter":
        return oracle_pp(op, kv, res)
    return None

def oracle_pp(op, kv, res):
    x = bytes.fromhex(kv.get("x", "")); h = bytes.fromhex(kv.get("h", ""))
    i1, i2 = int(kv["i1"]), int(kv["i2"])
    valid = i1 != i2 and i1 < len(x) and i2 < len(x)
    if not valid:
        return None if res == "NoPair" else f"{op}: invalid pair ({i1},{i2}) for a needle of {len(x)} bytes gave {res}"
    if kv.get("fx"):
        return None              # foreign argument needle: only memory safety (flags) is required
    if op == "pfprefilter":
        body = res
    else:
        B = 16
        m = __import__("re").match(r"^min=(\d+):(.*)$", res)
        if res == "Panic":
            mn = max(len(x), max(i1, i2) + B)
            return None if len(h) < mn else f"{op} panicked on a haystack of {len(h)} >= min_haystack_len {mn}"
        if not m:
            return f"{op}: unexpected output {res}"
        mn = int(m.group(1)); body = m.group(2)
        if mn != max(len(x), max(i1, i2) + B):
            return f"{op}: min_haystack_len is {mn}, expected {max(len(x), max(i1, i2) + B)}"
        if len(h) < mn:
            return f"{op}: haystack of {len(h)} bytes below min_haystack_len {mn} did not panic: {body}"
    first = h.find(x)
    if op == "ppfind":
        want = "None" if first < 0 else f"Some({first})"
        return None if body == want else f"ppfind returned {body}, naive search says {want}"
    # prefilters
    if body == "None":
        return None if first < 0 else f"{op} returned None but the needle occurs at {first}"
    m = __import__("re").match(r"^Some\((\d+)\)$", body)
    if not m:
        return f"{op}: unexpected output {res}"
    c = int(m.group(1))
    if first >= 0 and c > first:
        return f"{op} candidate {c} is after the first occurrence {first}"
    if not (c + i1 < len(h) and c + i2 < len(h) and h[c + i1] == x[i1] and h[c + i2] == x[i2]):
        return f"{op} candidate {c}: the pair bytes are not present at offsets {i1},{i2}"
    return None

def nontrivial_blocks(op, kv):
    return len(kv.get("x", "")) >= 4 and len(kv.get("h", "")) >= 8

def gen_c12(tier, rng): return gen_blocks(tier, rng)

def gen_c12_all(tier, rng):
    # building blocks incl. Two-Way (preprocessing Debug output, forward and reverse searches)
    tw = gen_tw(tier, rng)
    return gen_blocks(tier, rng) + tw[:: (3 if tier == 'quick' else 1)]

def gen_c11(tier, rng):
    cases = gen_pp("ppprefilter", tier, rng)
    # the portable prefilter, all dispatch outcomes of the memchr it calls
    for c in gen_pp("pfprefilter", tier, rng, isas=("sse2",))[:: (3 if tier == "quick" else 1)]:
        c = c.replace(" isa=sse2", "")
        cases.append(c)
    # the first pair byte occurs so close to either end that the partner's position falls outside the haystack:
    # no candidate may be reported there (portable prefilter: checked_sub / haystack.get; vector: tail chunk)
    k = 0
    for x in (b"abcdefgh", bytes(range(1, 41)), b"xy" + b"z" * 30):
        n = len(x)
        for (i1, i2) in ((0, n - 1), (n - 1, 0), (1, n - 2), (n - 2, 1), (0, 1), (3, 5)):
            for L in (n, n + 1, n + 7, n + 16, n + 33, n + 64):
                for p_ in sorted(set([0, 1, i1 - 1, i1, i2 - 1, L - 1, L - 2, L - 1 - abs(i2 - i1), L - abs(i2 - i1), L - n])):
                    if 0 <= p_ < L:
                        h = bytearray(b"q" * L); h[p_] = x[i1]
                        k += 1
                        for cpu in (CPUS if tier != "quick" else [CPUS[k % 3]]):
                            cases.append(f"pfprefilter x={hexs(x)} i1={i1} i2={i2} a={k % 64} h={hexs(bytes(h))}" + (f" cpu={cpu}" if cpu else ""))
                        for isa in ("sse2", "avx2"):
                            cases.append(f"ppprefilter isa={isa} x={hexs(x)} i1={i1} i2={i2} a={k % 64} h={hexs(bytes(h))}")
    # the portable prefilter accepts ANY haystack: shorter than the needle, shorter than either pair offset, empty
    # (the vector prefilters have a minimum length, the portable one has none)  (seeded change C11-j)
    for x in (b"abcdefghijkl", bytes(range(1, 41))):
        n = len(x)
        for (i1, i2) in ((9, 2), (2, 9), (n - 1, 0), (0, n - 1), (5, 6)):
            for L in sorted(set([0, 1, 2, min(i1, i2), max(i1, i2) - 1, max(i1, i2), max(i1, i2) + 1, n - 1])):
                for fill in (b"q", bytes([x[i1]]), bytes([x[i2]])):
                    k += 1
                    cases.append(f"pfprefilter x={hexs(x)} i1={i1} i2={i2} a={k % 64} h={hexs(fill * L)}")
    return cases

# --------------------------------------------------------------------------
# substring search through the meta searcher (C03, C04, C08, C10, C16) and Two-Way (C12)
# --------------------------------------------------------------------------
CPUS = ["", "sse2", "none"]
RANKS_MM = ["default", "const0", "const255", "id", "rev"]

def substring_pairs(rng, quick, rev=False):
    """(needle, haystack) pairs: exhaustive small binary, structured, long needles, prefilter-exhausting haystacks"""
    pairs = []
    nx, nh = (4, 9) if quick else (6, 12)
    needles = words(b"ab", nx)
    hays = words(b"ab", nh)
    k = 0
    for x in needles:
        for h in hays:
            k += 1
            if quick and len(h) > 5 and k % 4:
                continue
            pairs.append((x, h))
    for x in structured_needles(rng, quick):
        for h in haystacks_for(x, rng, quick):
            pairs.append((x, h))
    # lengths around the routing thresholds 15/16 and 63/64, match at both ends
    for n in (1, 2, 3, 8, 15, 16, 17):
        x = bytes(0x61 + (i * 3) % 7 for i in range(n))
        for L in (14, 15, 16, 17, 62, 63, 64, 65, 66, 100):
            if L >= n:
                pairs.append((x, b"q" * (L - n) + x))
                pairs.append((x, x + b"q" * (L - n)))
                pairs.append((x, b"q" * L))
    # needles longer than 32 bytes (Two-Way + prefilter) in haystacks below / around the vector minimum
    for n in (33, 40, 47, 64, 100):
        x = bytes(0x41 + (i * 7) % 23 for i in range(n))
        xp = (b"ab" * n)[:n]                                  # periodic long needle
        for xx in (x, xp, b"xy" + b"z" * (n - 2)):
            for pre in (0, 1, 2, 7, 16, 30, 64):
                for post in (0, 1, 17, 40):
                    pairs.append((xx, b"q" * pre + xx + b"q" * post))
                    pairs.append((xx, b"q" * pre + xx[:-1] + b"!" + b"q" * post))
            # rare byte early in the haystack, match later: find_simple's saturating adjustment
            pairs.append((xx, xx[1:5] + b"q" * 3 + xx + b"q"))
            pairs.append((xx, xx[-3:] + xx))
    # haystacks that exhaust the adaptive prefilter (>= 50 candidates, < 8 bytes apart) before a late match
    for x in (b"xy" + b"z" * 40, b"ab" * 20 + b"c", bytes(range(1, 41))):
        i1 = 0
        junk = (x[:2] + b"q") * 70
        pairs.append((x, junk + x))
        pairs.append((x, junk + b"q" * 100 + x + b"tail"))
        pairs.append((x, junk))
        pairs.append((x, (x[:3] + b"Q") * 80 + x[:-1] + b"Q" + x))
    # near-miss chains: two consecutive near-matches (one byte wrong each) of long needles with and without
    # borders, so that a prefilter jump lands on a second candidate while Two-Way still remembers a prefix
    # ("shift" memory of the small-period loop); then possibly a real match
    longs = [b"zAbcdefghi" + b"QJXKVWQJXKVWYQJXKVWY" + b"zAbcdefghi",          # W M W, border shorter than the period
             b" zebra_crossing_ahead_mind_the_gap_now ",                         # W + W[..1]
             b"abcdefghijklmnopqrstuvwxyz0123456789" + b"abcde",                   # border of 5
             (b"abcdefgh" * 5)[:37], b"ab" * 20 + b"c", b"xy" + b"z" * 40, bytes(range(1, 41))]
    for xx in longs:
        n = len(xx)
        ps = sorted(set([0, 1, 2, 3, n // 3, n // 2, n - 12, n - 11, n - 10, n - 9, n - 2, n - 1]))
        ps = [q for q in ps if 0 <= q < n]
        combos = [(p1, p2) for p1 in ps for p2 in ps]
        if quick:
            combos = combos[::3]
        for (p1, p2) in combos:
            a1 = bytearray(xx); a1[p1] = 0x23
            a2 = bytearray(xx); a2[p2] = 0x23
            pairs.append((xx, b"-----" + bytes(a1) + bytes(a2) + b"-" * 40))
            if (p1 + p2) % 4 == 0:
                pairs.append((xx, b"--" + bytes(a1) + bytes(a2) + xx + b"-" * 20))
                pairs.append((xx, bytes(a1) + b"-" * 7 + bytes(a2) + bytes(a1) + b"-" * 33))
    # token soups for periodic / bordered needles: occurrences, near-matches (one byte wrong, anywhere),
    # period-sized fragments and runs of a byte outside the needle's approximate byte set, concatenated at
    # random.  These reach the Two-Way loops in states where the "shift" memory is set and the next window is
    # then moved by the byte-set skip, the period, or the large shift (seeded change C04-a).
    soup_needles = [b"abab", b"ababab", b"abcabcab", b"abcabcabcabc", b"aabaab", b"abaaba", b"aabaa",
                    b"abcab", b"bacbacba", b"baba", b"aaab", b"baaa", b"abcdabc", b"cbadcba"]
    for x in soup_needles:
        n = len(x)
        per = next(q for q in range(1, n + 1) if all(x[i] == x[i + q] for i in range(n - q)))
        nears = []
        for i in range(n):
            for c in set(x) | {0x7a}:
                if c != x[i]:
                    y = bytearray(x); y[i] = c; nears.append(bytes(y))
        toks = [x, x, x[:per], x[-per:], x[:n - 1], x[1:]] + [b"z" * k for k in (1, 2, per, n - per if n > per else 1, n, n + 1)]
        for _ in range(24 if quick else 120):
            h = b""
            for _ in range(rng.randrange(3, 9)):
                h += rng.choice(nears) if rng.random() < 0.45 else rng.choice(toks)
            if len(h) < 16:
                h = h + b"z" * (16 - len(h)) if rng.random() < 0.5 else b"z" * (16 - len(h)) + h
            pairs.append((x, h))
            if rng.random() < 0.3:
                pairs.append((x, b"z" * 50 + h if rng.random() < 0.5 else h + b"z" * 50))
    # periodic continuations: every binary needle up to 7 bytes (8 thorough) in haystacks that continue its period to the
    # right (and to the left, for the reverse searchers) for j more bytes and then break it: occurrences exactly one
    # period apart next to a near-match, which is where a wrong shift / wrong period class jumps over a real occurrence
    # (seeded change C04-b: needles whose period lies between len/2 and the critical position)
    for x in words(b"ab", 7 if quick else 8, 2):
        n = len(x)
        per = next(q for q in range(1, n + 1) if all(x[i] == x[i + q] for i in range(n - q)))
        right = (x[:per] * (n + 12))          # x continued periodically to the right
        left = (x[n - per:] * (n + 12))       # ... and to the left (ends with x)
        js = sorted(set([0, 1, per - 1, per, per + 1, 2 * per])) if quick else range(0, 2 * per + 2)
        for j in js:
            for c in (b"#", bytes([x[0] ^ 3])):
                pairs.append((x, b"#" * 17 + right[:n + j] + c + b"#" * 5))
                pairs.append((x, b"#" * 5 + c + left[len(left) - n - j:] + b"#" * 17))
                if not quick or j == per:
                    pairs.append((x, b"#" * 70 + right[:n + j] + c * 3))
                    pairs.append((x, c * 3 + left[len(left) - n - j:] + b"#" * 70))
    # the same shapes over extreme byte values: every pair collected so far with needle >= 2 is also run through byte
    # translations (a->0x00, b->0xff, c->0x80, q->0x7f, ...) that preserve equality structure but change ranks, signs,
    # byte-set residues and hash values (a sample in the quick tier)
    tr1 = bytes((0x00 if c == 0x61 else 0xff if c == 0x62 else 0x80 if c == 0x63 else 0x7f if c == 0x71 else 0x01 if c == 0x23 else
                 0xfe if c == 0x2d else (c ^ 0x80)) for c in range(256))
    tr2 = bytes(((c * 167 + 13) & 0xff) for c in range(256))          # a bijection: scatters ASCII over all residues mod 64
    base_pairs = [(x, h) for (x, h) in pairs if len(x) >= 2 and len(h) >= 8]
    stride = 9 if quick else 2
    for i, (x, h) in enumerate(base_pairs[::stride]):
        t = tr1 if i % 2 == 0 else tr2
        pairs.append((x.translate(t), h.translate(t)))
    # needles of 255 / 256 / 257 / 300 bytes (pair offsets are u8; Pair scans at most 255 bytes)
    for n in (255, 256, 257, 300):
        for x in (bytes((i * 7 + 1) & 0xff or 1 for i in range(n)), b"a" * (n - 1) + b"z", b"z" + b"a" * (n - 1), (b"ab" * n)[:n - 1] + b"c"):
            pairs.append((x, b"q" * 40 + x + b"q" * 9))
            pairs.append((x, x[1:] + x[:-1] + b"q" + x))
            pairs.append((x, x[:-1] * 2))
    # needles of 242..300 bytes whose rare bytes sit at offsets 241..254 (the vector prefilter's minimum then exceeds the
    # needle length) in haystacks only 0..14 bytes longer than the needle: the short-haystack prefilter path must look
    # at positions >= 255  (seeded change C11-e)
    for n in (242, 256, 260, 269, 300):
        for (o1, o2) in ((1, 252), (241, 254), (250, 3), (254, 0)):
            if o1 < n and o2 < n:
                y = bytearray(b"e" * n); y[o1] = 0x6b; y[o2] = 0x51
                x = bytes(y)
                for kpre in (0, 1, 5, 13, 14, 15, 40):
                    pairs.append((x, b"e" * kpre + x))
                    pairs.append((x, b"e" * kpre + x[:-1] + b"e"))
    # every binary needle up to 7 bytes against single-letter runs and doubled rotations of itself (haystacks made of the
    # needle's own factors without containing it are where a wrong period / shift class shows as a false positive)
    for x in words(b"ab", 6 if quick else 8, 2):
        n = len(x)
        for hh in (b"a" * (n + 1), b"b" * (n + 1), b"a" * (n + 2) + b"b", b"b" + b"a" * (n + 2)):
            pairs.append((x, hh))
        for r in range(1, n):
            pairs.append((x, (x[r:] + x[:r]) * 2))
    pairs += long_lived_prefilter_pairs()
    sm = stale_memory_pairs(rng, quick)
    pairs += sm[::5] if quick else sm
    if not quick:
        for _ in range(400):
            n = rng.choice([rng.randrange(1, 8), rng.randrange(2, 40), rng.randrange(33, 120)])
            alpha = rng.choice([b"ab", b"abc", bytes(range(97, 105))])
            x = bytes(rng.choice(alpha) for _ in range(n))
            L = rng.randrange(0, 400)
            h = bytearray(rng.choice(alpha) for _ in range(L))
            if L >= n and rng.random() < 0.7:
                p = rng.randrange(0, L - n + 1); h[p:p + n] = x
            pairs.append((x, bytes(h)))
    return pairs

def long_lived_prefilter_pairs():
    """needles > 32 bytes whose rare bytes are NOT at offset 0, in haystacks of 60..70 well spaced occurrences (or
    near-misses) that keep the adaptive prefilter effective for more than 50 calls, with stray rare bytes shortly
    before later occurrences: anything that changes behaviour once the state has 'seen enough' shows here
    (seeded changes C16-f, C16-h)"""
    out = []
    for x in (b"e" * 20 + b"Zq" + b"e" * 18, b"the quick brown fox jumps over the lazy dog ZQ", bytes(range(1, 36)) + b"\xf0\xf1"):
        gap = b" " * 16
        body = (gap + x) * 70
        # stray rare bytes right after occurrences 55, 61 and 66
        cut = [(len(gap) + len(x)) * k for k in (55, 61, 66)]
        h1 = body[:cut[0]] + x[20:22] + body[cut[0]:cut[1]] + x[21:22] * 2 + body[cut[1]:cut[2]] + x[-2:] + body[cut[2]:]
        out.append((x, h1))
        near = bytearray(x); near[1] ^= 0x01
        out.append((x, (gap + bytes(near)) * 60 + x[20:22] + gap + x + gap + x))
        out.append((x, (gap + x) * 49 + gap + b"!" + x[1:] + gap + x))      # the 50th candidate is a false one
    return out

def pair_py(x, rank):
    """Pair::with_ranker for a pure ranker (port of the model's pair_with_ranker)"""
    r1, i1, r2, i2 = x[0], 0, x[1], 1
    if rank(r2) < rank(r1):
        r1, i1, r2, i2 = r2, 1, r1, 0
    for i, b in list(enumerate(x))[2:255]:
        if rank(b) < rank(r1):
            r2, i2 = r1, i1
            r1, i1 = b, i
        elif b != r1 and rank(b) < rank(r2):
            r2, i2 = b, i
    return i1, i2

def inert_then_halves_pairs(quick):
    """non-periodic needles > 32 bytes (Two-Way large shift + prefilter). Part A of the haystack plants the two pair
    bytes at their offsets every `stride` bytes (never a full candidate alignment twice), so the prefilter is called
    more than 50 times with tiny skips and turns INERT in the middle of the search; part B then holds, for a split
    point s, needle[s..] directly followed by needle[n - max(s, n-s)..]: a right-factor match followed by a left-factor
    mismatch, exactly what distinguishes the large-shift loop from the small-period loop once no prefilter resets the
    state any more (seeded change C10-i). Returns (ranker name, x, h)."""
    out = []
    needles = [b"abcdefghijklmnopqrstuvwxyzABCDEFGHIJKLMN", b"the quick brown fox jumps over a lazy dog", bytes(range(40, 77))]
    for x in needles:
        n = len(x)
        for rname, rank in (("id", lambda b: b), ("rev", lambda b: 255 - b)):
            i1, i2 = pair_py(x, rank)
            dist = abs(i1 - i2)
            stride = next(s_ for s_ in range(2, 8) if dist % s_ != 0)
            for split in range(1, n, 4 if quick else 1):
                shift = max(split, n - split)
                keep = n - shift
                fill = x[(split + 5) % n]
                hay = bytearray([fill]) * (70 * stride + 2 * n)      # > 50 prefilter calls, < 8 bytes skipped each
                p_ = 0
                while p_ + n <= len(hay):
                    hay[p_ + i1] = x[i1]; hay[p_ + i2] = x[i2]
                    p_ += stride
                hay += bytes([fill]) * (3 * n + split) + x[split:] + x[keep:] + bytes([fill]) * (2 * n)
                out.append((rname, x, bytes(hay)))
    return out

def stale_memory_pairs(rng, quick):
    """long needles x = (w^3)[:L] with period p = |w| < L (border s = L - p) and haystacks
       filler + C + x[s-k..] + filler, where C is x with one byte of its left part changed and 0 < k < s.
       Two-Way (small-period loop) matches the right part of C, fails on the left, advances by p and remembers the border;
       a prefilter whose rare bytes sit at offsets >= s then skips k bytes to a window that agrees with x everywhere
       except inside the first s-k bytes: only a search that forgets (or re-checks) the remembered prefix gets it right.
       (seeded change C10-a)"""
    pairs = []
    shapes = [(22, 36), (32, 47), (17, 33), (20, 39), (26, 40)] if quick else \
             [(22, 36), (32, 47), (17, 33), (20, 39), (26, 40), (18, 35), (30, 50), (40, 64), (23, 45), (33, 65)]
    for (pp, L) in shapes:
        for rep in range(1 if quick else 3):
            w = bytes(rng.choice(b"abcde") for _ in range(pp))
            if len(set(w)) < 3:
                continue
            x = (w * 4)[:L]
            sb = L - pp
            for k in range(1, sb):
                if quick and (k * 7 + pp) % 3 == 0:
                    continue
                for j in ((0, 2) if quick else (0, 1, 2, 5)):
                    c = bytearray(x); c[j] = 0x66 if c[j] != 0x66 else 0x67
                    core = bytes(c) + x[sb - k:]
                    pairs.append((x, core))
                    pairs.append((x, b"-" * 3 + core + b"-" * 20))
    return pairs

def gen_mm(tier, rng, fwd=True, configs=True):
    quick = tier == "quick"
    cases = []
    pairs = substring_pairs(rng, quick)
    k = 0
    # the needle is a view into the haystack itself (aliasing operands)
    for hb in (b"abcabcabd" * 3, bytes(range(1, 90)), b"a" * 70, (b"ab" * 40 + b"c") * 2):
        for off in (0, 1, 5, len(hb) // 2, len(hb) - 3):
            for n in (0, 1, 2, 3, 8, 33, len(hb) - off):
                if 0 <= off and off + n <= len(hb):
                    for f in (("top", "find") if fwd else ("rtop", "rfind")):
                        extra = " cfg=auto rank=default" if f == "find" else ""
                        cases.append(f"mm f={f}{extra} x={hexs(hb[off:off + n])} h={hexs(hb)} al={off} a={off % 64}")
    for (x, h) in pairs:
        k += 1
        a = (k * 7) % 64
        if fwd:
            cpu = CPUS[k % 3]
            cpus = f" cpu={cpu}" if cpu else ""
            cases.append(f"mm f=top{cpus} x={hexs(x)} h={hexs(h)} a={a}")
            cfgs = ["auto", "none"] if (configs and (not quick or k % 2 == 0 or len(x) > 32)) else ["auto"]
            for cfg in cfgs:
                rk = RANKS_MM[k % len(RANKS_MM)] if configs else "default"
                cases.append(f"mm f=find cfg={cfg} rank={rk}{cpus} x={hexs(x)} h={hexs(h)} a={a}")
        else:
            cases.append(f"mm f=rtop x={hexs(x)} h={hexs(h)} a={a}")
            cases.append(f"mm f=rfind x={hexs(x)} h={hexs(h)} a={a}")
    if fwd and configs:
        for j, (rk, x, h) in enumerate(inert_then_halves_pairs(quick)):
            if j % 2 == 0 or not quick:
                cases.append(f"mm f=find cfg=auto rank={rk} x={hexs(x)} h={hexs(h)} a={(j * 3) % 64}")
    return cases

def oracle_mm(op, kv, res, trace, flags):
    x = bytes.fromhex(kv.get("x", "")); h = bytes.fromhex(kv.get("h", ""))
    if flags:
        return f"{op}: load outside the slices or misaligned: {flags}"
    if op == "mm":
        f = kv["f"]
        i = h.find(x) if f in ("top", "find") else h.rfind(x)
        want = "None" if i < 0 else f"Some({i})"
        return None if res == want else f"memmem {f} (cfg={kv.get('cfg')}, rank={kv.get('rank')}, cpu={kv.get('cpu','host')}) returned {res}, naive search says {want} (|x|={len(x)}, |h|={len(h)})"
    if op in ("twfind", "twrfind"):
        if kv.get("fx"):
            return None
        i = h.find(x) if op == "twfind" else h.rfind(x)
        want = "None" if i < 0 else f"Some({i})"
        return None if res == want else f"{op} returned {res}, naive search says {want}"
    if op in ("twnew", "twrnew"):
        return None if not res.startswith("Panic") else f"{op} panicked"
    if op in ("rknew", "rkrnew"):
        xs = x if op == "rknew" else x[::-1]
        hh = 0
        for b in xs:
            hh = (2 * hh + b) % 2**32
        p2 = pow(2, max(len(xs) - 1, 0), 2**32)
        body = f"Finder {{ hash: Hash({hh}), hash_2pow: {p2} }}"
        want = body if op == "rknew" else f"FinderRev({body})"
        return None if res == want else f"{op} printed {res}, the polynomial hash of the needle gives {want}"
    return oracle_blocks(op, kv, res, trace, flags)

def gen_tw(tier, rng):
    quick = tier == "quick"
    cases = []
    seen = set()
    for (x, h) in substring_pairs(rng, quick):
        if x not in seen:
            seen.add(x)
            cases.append(f"twnew x={hexs(x)}")
            cases.append(f"twrnew x={hexs(x)}")
            cases.append(f"rknew x={hexs(x)}")
            cases.append(f"rkrnew x={hexs(x)}")
        if len(x) >= 1:
            cases.append(f"twfind x={hexs(x)} h={hexs(h)}")
            cases.append(f"twrfind x={hexs(x)} h={hexs(h)}")
    return cases

def gen_c03(tier, rng): return gen_mm(tier, rng, fwd=True)
def gen_c04(tier, rng): return gen_mm(tier, rng, fwd=False)
def nontrivial_mm(op, kv): return len(kv.get("x", "")) >= 4 and len(kv.get("h", "")) >= 8

# --------------------------------------------------------------------------
# C05: every entry point against guard pages, foreign needles, low addresses
# --------------------------------------------------------------------------
def with_flush(line, rng):
    """re-place the operands of a case flush against a guard page"""
    op, kv = parse_case(line)
    side = rng.choice([1, 2, 2])
    hk = "h" if "h" in kv else "x"
    n = len(kv.get(hk, "")) // 2
    toks = [t for t in line.split() if not t.startswith(("a=", "ax=", "ay=", "fl=", "fx=1", "fy=", "fln=", "an="))]
    if op in ("iseq", "ispre", "issuf"):
        return " ".join(toks) + f" fx={side} fy={rng.choice([1, 2])}"
    a = 0 if side == 1 else (4096 - n) % 4096
    return " ".join(toks) + f" a={a} fl={side} fln={rng.choice([0, 1, 2])}"

def gen_c05(tier, rng):
    quick = tier == "quick"
    cases = []
    step = 7 if quick else 2
    # every family, re-placed against PROT_NONE pages
    for g in (gen_c18, gen_c01, gen_c02, gen_c07, gen_c06):
        src = [c for c in g(tier, rng) if "cpu=" not in c]
        for c in src[::step]:
            cases.append(with_flush(c, rng))
    for g in (gen_c12, gen_c11):
        src = [c for c in g(tier, rng) if "cpu=" not in c and not c.startswith("sofind")]
        for c in src[:: (step * 2)]:
            cases.append(with_flush(c, rng))
    tw = [c for c in gen_tw(tier, rng)]
    for c in tw[:: (step * 6)]:
        cases.append(with_flush(c, rng) if " h=" in c else c)
    # foreign needles: argument needle differs from the construction needle
    xs = [b"ab", b"abc", b"aab", bytes(range(1, 10)), b"ab" * 10, bytes(range(1, 41))]
    fxs = [b"", b"a", b"ab", b"ba", b"abcd", b"ab" * 30, b"q" * 100, bytes(200), b"ab" + bytes(400)]
    for x in xs:
        for fx in fxs:
            for L in (0, 1, 5, 16, 17, 18, 33, 40, 64, 100):
                h = (b"ab" + bytes([0x71]) * 5 + x + fx[:7]) * 20
                h = h[:L]
                for fl in (0, 2):
                    a = (4096 - L) % 4096 if fl == 2 else 3
                    cases.append(f"rkfind nx={hexs(x)} x={hexs(fx)} h={hexs(h)} a={a} fl={fl} fln=2")
                    cases.append(f"rkrfind nx={hexs(x)} x={hexs(fx)} h={hexs(h)} a={a} fl={fl} fln=2")
                    if len(x) >= 2:
                        for isa in ("sse2", "avx2"):
                            cases.append(f"ppfind isa={isa} x={hexs(x)} i1=0 i2={len(x) - 1} fx={hexs(fx)} h={hexs(h)} a={a} fl={fl} fln=2")
                    if len(fx) <= 40 and L <= 40:
                        cases.append(f"twfind x={hexs(x)} fx={hexs(fx)} h={hexs(h)} a={a} fl={fl}")
                        cases.append(f"twrfind x={hexs(x)} fx={hexs(fx)} h={hexs(h)} a={a} fl={fl}")
    # a haystack whose END address is numerically small, argument needle longer than that address
    h = b"ab" + bytes(15)
    for n in (65552, 70000):
        cases.append(f"ppfind isa=sse2 x=6162 i1=0 i2=1 low=1 fx={hexs(b'ab' + bytes(n))} h={hexs(h)}")
    h2 = b"ab" + bytes(40)
    cases.append(f"ppfind isa=avx2 x=6162 i1=0 i2=1 low=1 fx={hexs(b'ab' + bytes(65600))} h={hexs(h2)}")
    return cases

def oracle_c05(op, kv, res, trace, flags):
    if flags:
        return f"{op}: a load outside the slices passed to the call, or a misaligned aligned load: {flags}"
    if res.startswith("CRASH"):
        return f"{op}: the process died with {res} (a read outside mapped memory)"
    return None

def nontrivial_c05(op, kv):
    return len(kv.get("h", kv.get("x", ""))) >= 8

# --------------------------------------------------------------------------
# C14: no panic in builds with debug assertions and overflow checks
# --------------------------------------------------------------------------
def gen_prestate(tier, rng):
    cases = []
    U32 = 2**32 - 1
    starts = [(1, 0), (2, 0), (50, 0), (51, 399), (51, 400), (52, 408), (60, 100), (1000, 7992), (1000, 7993),
              (2**29 - 1, U32), (2**29, U32), (2**29 + 1, U32), (2**29 + 1, 0), (2**30, U32), (2**31, 5), (U32 - 1, U32), (U32, U32), (U32, 0), (0, 0), (0, 77)]
    seqs = ["E", "E,E", "U5,E", "E,U0,E", "U8,E,U8,E", "U100000,E", "E,U1,E,U1,E", "U7,U7,U7,E"]
    for (a, b) in starts:
        for sq in seqs:
            cases.append(f"prestate skips={a} skipped={b} ops={sq}")
    n = 100 if tier == "quick" else 3000
    for _ in range(n):
        a = rng.choice([rng.randrange(0, 200), rng.randrange(2**29 - 3, 2**29 + 3), rng.randrange(0, 2**32)])
        b = rng.choice([rng.randrange(0, 3000), rng.randrange(0, 2**32), U32])
        ops = ",".join(rng.choice(["E", "E", f"U{rng.randrange(0, 20)}", f"U{rng.randrange(0, 100000)}"]) for _ in range(rng.randrange(1, 12)))
        cases.append(f"prestate skips={a} skipped={b} ops={ops}")
    return cases

def gen_c14(tier, rng):
    quick = tier == "quick"
    step = 5 if quick else 2
    cases = gen_prestate(tier, rng)
    for g in (gen_c18, gen_c19, gen_c01, gen_c02, gen_c07, gen_c06):
        src = [c for c in g(tier, rng) if "cpu=" not in c]
        cases += src[::step]
    for g in (gen_c12, gen_c11, gen_tw):
        src = [c for c in g(tier, rng) if "cpu=" not in c]
        cases += src[:: (step * 2)]
    cases += gen_c03(tier, rng)[:: (step * 2)]
    cases += gen_c04(tier, rng)[:: (step * 2)]
    # iterator traversals (size_hint before every call, driven past the end; the empty needle) and finder histories:
    # every iterator / finder method must return normally too  (seeded change C14-f: FindIter::size_hint)
    cases += [c for c in gen_c08(tier, rng) if "cpu=" not in c][:: step]
    cases += [c for c in gen_c16(tier, rng) if "cpu=" not in c][:: step]
    # both sides of min_haystack_len for every pair family
    for isa, B in (("sse2", 16), ("avx2", 16)):
        for x in (b"ab", b"abcde", bytes(range(1, 34)), b"ab" * 150):
            n = len(x)
            for (i1, i2) in ((0, 1), (1, 0), (n - 1, 0), (0, n - 1), (min(n - 1, 255), min(n - 2, 254))):
                if i1 == i2 or max(i1, i2) > 255:
                    continue
                mn = max(n, max(i1, i2) + B)
                for L in range(max(0, mn - 3), mn + 4):
                    h = bytes([0x71]) * L
                    for op in ("ppfind", "ppprefilter"):
                        cases.append(f"{op} isa={isa} x={hexs(x)} i1={i1} i2={i2} h={hexs(h)}")
    return cases

def oracle_c14(op, kv, res, trace, flags):
    if op in ("ppfind", "ppprefilter", "pfprefilter"):
        return oracle_pp(op, kv, res)      # the documented panic, exactly below min_haystack_len
    if op == "prestate":
        return f"PrefilterState from state (skips={kv['skips']}, skipped={kv['skipped']}) ops {kv['ops']}: {res} (an overflow check tripped)" if (res.startswith("Panic") or res.startswith("CRASH")) else None
    if res.startswith("Panic") or res.startswith("CRASH"):
        return f"{op} did not return normally: {res}"
    return None

def nontrivial_c14(op, kv):
    return True


# --------------------------------------------------------------------------
# C10: the same (needle, haystack) under every configuration
# --------------------------------------------------------------------------
def gen_c10(tier, rng):
    quick = tier == "quick"
    cases = []
    pairs = substring_pairs(rng, quick)
    # keep the pairs that exercise heuristics: needles >= 2 bytes
    pairs = [(x, h) for (x, h) in pairs if len(x) >= 2]
    step = 9 if quick else 5
    extra_rankers = seeded_rankers(rng, 1 if quick else 4)
    k = 0
    for (x, h) in pairs[::step]:
        k += 1
        # a ranker that makes the needle's own bytes the most common
        t = bytearray([0] * 256)
        for b in x:
            t[b] = 255
        rankers = RANKS_MM + extra_rankers + ["tbl:" + bytes(t).hex()]
        if quick:
            rankers = [rankers[(k + j * 3) % len(rankers)] for j in range(3)]
        for cfg in ("auto", "none"):
            for rk in rankers:
                for cpu in (CPUS if (not quick or k % 3 == 0) else [CPUS[k % 3]]):
                    cpus = f" cpu={cpu}" if cpu else ""
                    cases.append(f"mm f=find cfg={cfg} rank={rk}{cpus} x={hexs(x)} h={hexs(h)} a={(k * 5) % 64}")
    # the fallback prefilter is only built when the rarest byte's rank is at most MAX_FALLBACK_RANK (250): needles whose
    # rarest byte has rank exactly 249 / 250 / 251 under the identity ranker and under constant tables, no SIMD
    for r0 in (249, 250, 251, 255):
        t = bytearray([r0] * 256)
        for x in (bytes([r0, 255, r0, 254, 253] * 2), bytes([255, r0, 254] * 4 + [r0]), bytes([r0, r0 + 1 if r0 < 255 else 254] * 20)):
            for h in (b"q" * 30 + x + b"q" * 9, bytes([r0]) * 3 + x[:-1] + b"q" + x, b"q" * 70):
                for rk in ("id", "tbl:" + bytes(t).hex()):
                    for cfg in ("auto", "none"):
                        k += 1
                        cases.append(f"mm f=find cfg={cfg} rank={rk} cpu=none x={hexs(x)} h={hexs(h)} a={(k * 5) % 64}")
    # the prefilter turns inert in the middle of a search, then a right-factor match with a left-factor mismatch
    for (rk, x, h) in inert_then_halves_pairs(quick):
        k += 1
        cpu = CPUS[k % 3]
        cpus = f" cpu={cpu}" if cpu else ""
        for cfg in ("auto", "none"):
            cases.append(f"mm f=find cfg={cfg} rank={rk}{cpus} x={hexs(x)} h={hexs(h)} a={(k * 5) % 64}")
    # stale Two-Way memory after a prefilter skip: depends on where the ranker puts the rare bytes
    for (x, h) in stale_memory_pairs(rng, quick):
        k += 1
        for rk in ("rev", "id", "default"):
            cpu = CPUS[k % 3]
            cpus = f" cpu={cpu}" if cpu else ""
            cases.append(f"mm f=find cfg=auto rank={rk}{cpus} x={hexs(x)} h={hexs(h)} a={(k * 5) % 64}")
    return cases

def oracle_c10(op, kv, res, trace, flags):
    # every configuration must give the answer of the naive search, hence the same answer as every other configuration
    return oracle_mm(op, kv, res, trace, flags)

# --------------------------------------------------------------------------
# C08: find_iter / rfind_iter
# --------------------------------------------------------------------------
def greedy_py(h, x):
    out = []; pos = 0
    while pos <= len(h):
        i = h.find(x, pos)
        if i < 0:
            break
        out.append(i); pos = i + max(len(x), 1)
    return out

def rgreedy_py(h, x):
    out = []; p = len(h)
    while p is not None:
        i = h.rfind(x, 0, p)
        if i < 0:
            break
        out.append(i)
        p = (p - 1 if p > 0 else None) if p == i else i
    return out

def gen_c08(tier, rng):
    quick = tier == "quick"
    cases = []
    fam = []
    # self-overlapping needles in highly repetitive haystacks
    for (x, unit, tail) in ((b"aa", b"a", b""), (b"aba", b"ab", b"a"), (b"aaa", b"a", b"b"), (b"abab", b"ab", b""),
                            (b"abcabc", b"abc", b"ab"), (b"a", b"a", b""), (b"ab", b"ab", b"a")):
        for k in (0, 1, 2, 3, 5, 8, 13, 21, 40, 70):
            fam.append((x, unit * k + tail))
            fam.append((x, b"q" + unit * k + tail + b"q" + unit * 3))
    # empty needle
    for L in (0, 1, 2, 5, 16, 17, 63, 64, 65, 100):
        fam.append((b"", bytes(0x61 + i % 3 for i in range(L))))
    # one iterator kept alive over 60..70 matches (long-lived prefilter state), stray rare bytes late
    fam += long_lived_prefilter_pairs()
    # long needles (Two-Way + prefilter): early part drives the prefilter inert before later matches
    for x in (b"xy" + b"z" * 40, b"ab" * 20 + b"c", bytes(range(1, 41))):
        junk = (x[:2] + b"q") * 70
        fam.append((x, junk + x + b"mid" + x + junk[:30] + x))
        fam.append((x, x + x + x[:-1] + b"!" + x))
        fam.append((x, junk))
    # packed-pair range and short
    for x in (b"foo", b"ab", bytes(range(1, 20)), bytes(range(1, 33))):
        fam.append((x, (x + b"--") * 9 + x))
        fam.append((x, b"q" * 70 + x + b"q" * 3 + x))
    pairs = substring_pairs(rng, quick)
    fam += pairs[:: (37 if quick else 5)]
    # every long-needle pair (Two-Way + prefilter; near-miss chains where a prefilter jump meets the shift memory)
    fam += [(x, h) for (x, h) in pairs if len(x) > 32]
    k = 0
    for (x, h) in fam:
        k += 1
        n_f = len(greedy_py(h, x)); n_r = len(rgreedy_py(h, x))
        cfg = ["auto", "none"][k % 2]
        rk = RANKS_MM[k % len(RANKS_MM)]
        cpu = CPUS[k % 3]; cpus = f" cpu={cpu}" if cpu else ""
        cases.append(f"mmiter dir=f cfg={cfg} rank={rk}{cpus} k={n_f + 3} x={hexs(x)} h={hexs(h)} a={(k * 3) % 64}")
        cases.append(f"mmiter dir=r k={n_r + 3} x={hexs(x)} h={hexs(h)} a={(k * 3) % 64}")
        if n_f > 2:
            cases.append(f"mmiter dir=f cfg={cfg} rank={rk}{cpus} k={n_f // 2} x={hexs(x)} h={hexs(h)}")
        if k % 4 == 0:
            # the traversal continues on into_owned() of the partially consumed (or exhausted) iterator
            for own in sorted(set([0, 1, n_f // 2, n_f, n_f + 1])):
                cases.append(f"mmiter dir=f cfg={cfg} rank={rk}{cpus} own={own} k={n_f + 3} x={hexs(x)} h={hexs(h)} a={(k * 3) % 64}")
            for own in sorted(set([1, n_r // 2, n_r, n_r + 1])):
                cases.append(f"mmiter dir=r own={own} k={n_r + 3} x={hexs(x)} h={hexs(h)} a={(k * 3) % 64}")
    return cases

def oracle_c08(op, kv, res, trace, flags):
    x = bytes.fromhex(kv.get("x", "")); h = bytes.fromhex(kv.get("h", ""))
    k = int(kv["k"])
    if flags:
        return f"{op}: load outside the slices: {flags}"
    if res.startswith("Panic") or res.startswith("CRASH"):
        return f"{op} did not return normally: {res}"
    outs = res.split(";") if res else []
    if kv.get("dir") == "r":
        seq = rgreedy_py(h, x)
        want = [f"Some({i})" for i in seq] + ["None"] * k
        if outs != want[:k]:
            return f"rfind_iter yielded {outs[:12]}..., the mirror-image greedy sequence is {want[:min(k, 12)]}..."
        return None
    seq = greedy_py(h, x)
    if len(outs) != k:
        return f"find_iter: {len(outs)} outputs for {k} calls"
    for j, o in enumerate(outs):
        hint, val = o.split(":")
        lo, hi = hint.split("-")
        remaining = max(0, len(seq) - j)
        want = f"Some({seq[j]})" if j < len(seq) else "None"
        if val != want:
            return f"find_iter call {j} returned {val}, the greedy sequence has {want}"
        if not (int(lo) <= remaining and (hi == "inf" or remaining <= int(hi))):
            return f"find_iter size_hint before call {j} is ({lo},{hi}) but {remaining} matches are still to come"
    return None

def nontrivial_c08(op, kv):
    return len(kv.get("h", "")) >= 8

# --------------------------------------------------------------------------
# C16: operation histories over finders and iterators
# --------------------------------------------------------------------------
def gen_c16(tier, rng):
    quick = tier == "quick"
    cases = []
    needles = [b"", b"a", b"ab", b"aba", b"foo", bytes(range(1, 20)), b"xy" + b"z" * 40, b"ab" * 20 + b"c", bytes(range(1, 41)),
               b"\xff", b"\x00", b"\x80", b"\xff\xff", b"\x00\xff\x80", bytes([0xff]) * 33]
    for (x, h) in long_lived_prefilter_pairs():
        hshex = hexs(h) + "," + hexs(h[: len(h) // 2])
        for ops in ("I0," + ",".join(["N"] * 74), "I0," + ",".join(["N"] * 52) + ",K," + ",".join(["N"] * 22), "F0,F1,F0,I0," + ",".join(["N"] * 60) + ",W," + ",".join(["N"] * 14)):
            cases.append(f"hist cfg=auto rank=default x={hexs(x)} hs={hshex} ops={ops}")
    n_hist = 400 if quick else 6000
    k = 0
    for x in needles:
        junk = ((x[:2] or b"q") + b"q") * 70
        hs = [
            junk + x,                                  # exhausts an adaptive prefilter, match at the very end
            x + b"--" + x + b"tail",                   # early matches
            b"q" * 100,                                # no match
            (x or b"a") * 5,                           # dense / overlapping
            junk,                                      # exhausts, no match
            b"",                                       # empty haystack
            x[:-1] if x else b"z",                     # shorter than the needle
            (x[:1] or b"a") + b"bc",                   # 3 bytes: iterators are exhausted after a few calls
            x[:1] or b"a",                             # 1 byte
        ]
        hshex = ",".join(hexs(h) for h in hs)
        fixed = [
            # one buffer refilled between searches (the same address holds other bytes): no-match haystacks first,
            # then matching ones of the same or a smaller length, both directions, also through clones / as_ref
            "Q2,Q1,Q4,Q0,Q6,Q1,P2,P1,P4,P0,P6,P1",
            "P4,P0,Q4,Q0,C,Q2,Q3,P2,P3,O,Q6,Q1,P6,P1,D",
            "Q2,J1,M,M,Q4,Q3,P2,I1,N,N,P4,P3",
            "F0,F1,F2,F1,F0,D",                              # reuse after a prefilter-exhausting haystack
            "F4,F1,F4,F3,F6,F5",
            "F1,C,F1,O,F1,F0,D,A1,A0",                       # clone / into_owned / as_ref
            "R0,R1,C,R1,O,R1,R3,D",
            "I1,N,K,N,S,N,N,N",                              # clone a partially consumed iterator
            "I3,N,S,W,N,S,N,K,N,N,N,N,N,S",                  # into_owned in the middle of an iteration
            "I0,N,N,F1,N,I1,N,N,N",                          # the finder stays usable while iterating
            "J3,M,L,M,V,M,M,M,M,M,M",
            "O,I3,N,N,J3,M,M,D,F0,N,M",
            "I4,N,N,S,K,N",
            # conversions of EXHAUSTED iterators (short haystacks; the empty needle matches len+1 times), then keep calling
            "J7,M,M,M,M,V,M,M",
            "J7,M,M,M,M,M,L,M,V,M",
            "I7,N,N,N,N,W,N,S,N",
            "I7,N,N,N,N,N,K,N,S,W,N",
            "J8,M,M,V,M,L,M",
            "I8,N,N,W,N,S,K,N",
            "J5,M,V,M,M",
            "I5,N,W,N,N",
        ]
        for ops in fixed:
            for cfg in (("auto", "none") if not quick else ("auto",)):
                cpu = CPUS[k % 3]; cpus = f" cpu={cpu}" if cpu else ""
                cases.append(f"hist cfg={cfg} rank={RANKS_MM[k % len(RANKS_MM)]}{cpus} x={hexs(x)} hs={hshex} ops={ops}")
                k += 1
        for _ in range(n_hist // len(needles) + 1):
            L = rng.randrange(3, 17)
            ops = []
            have_it = have_rit = False
            for _ in range(L):
                t = rng.choice(["F", "F", "R", "A", "C", "O", "D", "I", "J", "N", "N", "S", "K", "W", "M", "M", "L", "V", "P", "Q", "Q"])
                if t in "FRAIJPQ":
                    t += str(rng.randrange(len(hs)))
                if t[0] == "I": have_it = True
                if t[0] == "J": have_rit = True
                if t[0] in "NSKW" and not have_it: continue
                if t[0] in "MLV" and not have_rit: continue
                ops.append(t)
            if ops:
                cpu = CPUS[k % 3]; cpus = f" cpu={cpu}" if cpu else ""
                cases.append(f"hist cfg={rng.choice(['auto', 'none'])} rank={rng.choice(RANKS_MM)}{cpus} x={hexs(x)} hs={hshex} ops={','.join(ops)}")
                k += 1
    return cases

def oracle_c16(op, kv, res, trace, flags):
    x = bytes.fromhex(kv.get("x", ""))
    hs = [bytes.fromhex(s) for s in kv["hs"].split(",")]
    if res.startswith("Panic") or res.startswith("CRASH"):
        return f"history {kv['ops']} did not return normally: {res}"
    outs = res.split(";") if res else []
    want = []
    fit = None; rit = None
    for t in kv["ops"].split(","):
        c = t[0]
        if c in "FAP":
            i = hs[int(t[1:])].find(x); want.append(("=", "None" if i < 0 else f"Some({i})"))
        elif c in "RQ":
            i = hs[int(t[1:])].rfind(x); want.append(("=", "None" if i < 0 else f"Some({i})"))
        elif c == "D":
            want.append(("=", "true"))
        elif c == "I":
            fit = [greedy_py(hs[int(t[1:])], x), 0]
        elif c == "J":
            rit = [rgreedy_py(hs[int(t[1:])], x), 0]
        elif c == "N":
            seq, j = fit
            want.append(("=", f"Some({seq[j]})" if j < len(seq) else "None")); fit[1] = j + 1
        elif c == "S":
            seq, j = fit
            want.append(("hint", max(0, len(seq) - j)))
        elif c == "M":
            seq, j = rit
            want.append(("=", f"Some({seq[j]})" if j < len(seq) else "None")); rit[1] = j + 1
    if len(outs) != len(want):
        return f"history {kv['ops']}: {len(outs)} outputs, expected {len(want)}"
    for j, ((kind, w), o) in enumerate(zip(want, outs)):
        if kind == "=":
            if o != w:
                return f"history {kv['ops']}: output {j} is {o}, a fresh finder for the same needle gives {w}"
        else:
            lo, hi = o.split("-")
            if not (int(lo) <= w and (hi == "inf" or w <= int(hi))):
                return f"history {kv['ops']}: size_hint {o} does not bracket the {w} matches still to come"
    return None

def nontrivial_c16(op, kv):
    return kv.get("ops", "").count(",") >= 2

# --------------------------------------------------------------------------
# C17: allocation probe
# --------------------------------------------------------------------------
ALLOC_KINDS_ZERO = ["memchr", "memrchr", "memchr2", "memrchr2", "memchr3", "memrchr3", "iter", "mm_find", "mm_rfind",
                    "mm_find_iter", "mm_rfind_iter", "finder_new_find", "rfinder_new_rfind", "owned_then_search", "shiftor_find", "blocks"]
ALLOC_KINDS_OWNING = ["into_owned_borrowed", "shiftor_new"]

def gen_c17(tier, rng):
    quick = tier == "quick"
    cases = []
    pairs = []
    for x in (b"", b"a", b"ab", b"aba", b"foo", bytes(range(1, 16)), bytes(range(1, 17)), bytes(range(1, 33)), bytes(range(1, 34)),
              b"xy" + b"z" * 40, b"ab" * 20 + b"c", b"z" * 100):
        junk = ((x[:2] or b"q") + b"q") * 70
        for h in (b"", b"q" * 10, b"q" * 70, junk + x, x + b"--" + x, (x or b"a") * 6, junk, b"q" * 300 + x + b"q" * 50):
            pairs.append((x, h))
    pairs += substring_pairs(rng, True)[:: (41 if quick else 7)]
    k = 0
    for (x, h) in pairs:
        for what in ALLOC_KINDS_ZERO + ALLOC_KINDS_OWNING:
            if what.startswith("shiftor") and len(x) > 20:
                continue
            k += 1
            extra = f" cfg={['auto', 'none'][k % 2]} rank={RANKS_MM[k % len(RANKS_MM)]}" if what == "finder_new_find" else ""
            cases.append(f"alloc what={what}{extra} x={hexs(x)} h={hexs(h)} a={(k * 3) % 64}")
    return cases

def canon_c17(op, res):
    return res.split(":")[0] if op == "alloc" else res

def oracle_c17(op, kv, res, trace, flags):
    if res.startswith("Panic") or res.startswith("CRASH"):
        return f"alloc probe {kv['what']}: {res}"
    if res in ("BadCase", "UnknownOp"):
        return None            # this API does not exist in this build (e.g. no `alloc` feature)
    n = int(res.split(":")[0])
    what = kv["what"]; x = bytes.fromhex(kv.get("x", ""))
    if what in ALLOC_KINDS_ZERO:
        return None if n == 0 else f"{what} performed {n} heap allocation(s) (needle {len(x)} bytes, haystack {len(kv.get('h',''))//2} bytes)"
    if what == "into_owned_borrowed":
        return None if n <= 1 else f"into_owned performed {n} allocations"
    if what == "shiftor_new":
        return None if n <= 1 else f"shiftor::Finder::new performed {n} allocations"
    return None

def nontrivial_c17(op, kv):
    return len(kv.get("h", "")) >= 8

# --------------------------------------------------------------------------
# C09: the same cases through every build configuration and dispatch outcome
# --------------------------------------------------------------------------
def parse_kv(line):
    return dict(t.split('=', 1) for t in line.split()[1:] if '=' in t)

def gen_c09(tier, rng):
    quick = tier == "quick"
    step = 6 if quick else 2
    cases = []
    for g in (gen_c01, gen_c02, gen_c07):
        src = [c for c in g(tier, rng) if (" be=top" in c or " be=swar" in c or " be=sse2" in c)]
        cases += src[::step]
    it = [c for c in gen_c06(tier, rng) if (" be=top" in c or " be=swar" in c)]
    cases += it[::step]
    c3 = gen_c03(tier, rng)
    cases += c3[:: (step * 2)]
    cases += gen_c04(tier, rng)[:: (step * 2)]
    # needles above 32 bytes go through Two-Way + the per-ISA prefilter wiring (prefilter_kind_{sse2,avx2,fallback}):
    # all such cases, each under a forced dispatch outcome (seeded change C09-c: SSE2-only prefilter wiring)
    import re as _re
    for isa in ("avx2", "sse2"):
        for cpu in ("", "sse2", "none"):
            cases.append(f"avail isa={isa}" + (f" cpu={cpu}" if cpu else ""))
    longs = [c for c in c3 if c.startswith("mm f=find") and len(parse_kv(c).get("x", "")) > 64]
    for i, c in enumerate(longs[:: (3 if quick else 1)]):
        c = _re.sub(r" cpu=\w+", "", c)
        cpu = ["sse2", "none", ""][i % 3]
        cases.append(c + (f" cpu={cpu}" if cpu else ""))
    return cases

def build_expect_c09(op, kv, bname):
    """which x86 searchers report themselves available in which build: run-time detection needs std; without std only
    compile-time target features count; the forced detection outcome (cpu=) only exists in hooked builds"""
    if op != "avail":
        return None
    hooked = not bname.startswith("plain")
    cpu = kv.get("cpu", "") if hooked else ""
    std = "+nofeatures" not in bname and "+alloconly" not in bname
    avx2_compiled = "+avx2" in bname
    if kv["isa"] == "sse2":
        ok = cpu != "none"
    else:
        ok = (avx2_compiled or std) and cpu not in ("sse2", "none")
    return "1111" if ok else "0000"

def oracle_c09(op, kv, res, trace, flags):
    if op == "avail":
        return None
    if op in ("find", "rfind", "count"):
        return oracle_memchr(op, kv, res, trace, flags)
    if op == "iter":
        return oracle_iter(op, kv, res, trace, flags)
    return oracle_mm(op, kv, res, trace, flags)

def nontrivial_c09(op, kv):
    return len(kv.get("h", "")) >= 16

# --------------------------------------------------------------------------
# C15: concurrent use
# --------------------------------------------------------------------------
def gen_c15(tier, rng):
    """one case file for a process: first line declares the shared needle"""
    quick = tier == "quick"
    x = b"xy" + b"z" * 40
    lines = [f"sharedneedle x={hexs(x)}"]
    step = 400 if quick else 60
    for g in (gen_c01, gen_c02, gen_c07):
        src = [c for c in g("quick", rng) if " be=top " in c and "cpu=" not in c]
        lines += src[:: max(1, len(src) // (60 if quick else 300))]
    it = [c for c in gen_c06("quick", rng) if " be=top " in c and "cpu=" not in c]
    lines += it[:: max(1, len(it) // (40 if quick else 200))]
    mm = [c for c in gen_c03("quick", rng) if "cpu=" not in c]
    lines += mm[:: max(1, len(mm) // (60 if quick else 300))]
    mr = [c for c in gen_c04("quick", rng)]
    lines += mr[:: max(1, len(mr) // (40 if quick else 200))]
    # one-shot searches on short haystacks with needles of equal length but different bytes, in a period-3 rotation: a
    # thread that runs every n-th case (n a power of two) sees a different needle each time AT THE SAME ADDRESS of its
    # needle buffer, so state cached across calls and keyed by address or length goes stale  (seeded change C15-e)
    trio = [b"needle-A", b"needle-B", b"Needle-C"]
    for j in range(60 if quick else 300):
        nd = trio[j % 3]
        hb = [b"..." + nd + b"...", nd, b"." * 20 + nd, b"xx" + nd[:-1] + b"?" + nd + b"!", b"." * 40][(j // 3) % 5]
        lines.append(f"mm f=top x={hexs(nd)} h={hexs(hb)}")
        lines.append(f"mm f=rtop x={hexs(nd)} h={hexs(hb)}")
    junk = (x[:2] + b"q") * 70
    hs = [junk + x, x + b"--" + x, b"q" * 200, junk, b"", x * 3, b"q" * 70 + x + b"q" * 70 + x]
    for j in range(40 if quick else 200):
        h = hs[j % len(hs)]
        lines.append(f"sfind h={hexs(h)}")
        lines.append(f"srfind h={hexs(h)}")
        if j % 3 == 0:
            lines.append(f"siter h={hexs(h)} k={len(greedy_py(h, x)) + 2}")
        if j % 3 == 1:
            # consumed half way, into_owned(), drained on another thread (forward and reverse)
            lines.append(f"siter own=1 h={hexs(h)} k={len(greedy_py(h, x)) + 2}")
            lines.append(f"siter own=1 dir=r h={hexs(h)} k={len(rgreedy_py(h, x)) + 2}")
    return lines

def oracle_c15(op, kv, res, trace, flags, shared=b""):
    if op in ("find", "rfind", "count"):
        return oracle_memchr(op, kv, res, trace, flags)
    if op == "iter":
        return oracle_iter(op, kv, res, trace, flags)
    if op == "mm":
        return oracle_mm(op, kv, res, trace, flags)
    h = bytes.fromhex(kv.get("h", ""))
    if op == "sfind":
        i = h.find(shared); want = "None" if i < 0 else f"Some({i})"
        return None if res == want else f"shared Finder::find returned {res} under concurrency, in isolation {want}"
    if op == "srfind":
        i = h.rfind(shared); want = "None" if i < 0 else f"Some({i})"
        return None if res == want else f"shared FinderRev::rfind returned {res} under concurrency, in isolation {want}"
    if op == "siter":
        seq = rgreedy_py(h, shared) if kv.get("dir") == "r" else greedy_py(h, shared); k = int(kv["k"])
        want = ";".join(([f"Some({i})" for i in seq] + ["None"] * k)[:k])
        return None if res == want else f"cloned find_iter yielded {res} under concurrency, in isolation {want}"
    return None

# --------------------------------------------------------------------------
# C13: step counts on adversarial families at geometrically growing sizes
# --------------------------------------------------------------------------
def steps_of(trace):
    if trace in ("-", "?", ""):
        return 0
    if trace.startswith("#"):
        return int(trace[1:].split(":")[0])
    return sum(1 for t in trace.split(",") if not t.startswith("B"))

def labels_of(trace):
    if trace.startswith("#"):
        parts = trace.split(":")
        return parts[2].split(",") if len(parts) > 2 else []
    return [t for t in trace.split(",") if t.startswith("B")]

# constants of the proved bound (Props/C13.v: C13_find, C13_finder, C13_rfind):
#   building + one search:  steps <= K * (|h| + 1) + 6 * |x| + 11,  K = 4906 forward, 70 reverse
C13_K_FWD = 4906
C13_K_REV = 70

def c13_bound(kv, n, m):
    rev = kv.get("f") in ("rfind", "rtop") or kv.get("dir") == "r"
    return (C13_K_REV if rev else C13_K_FWD) * (n + 1) + 6 * m + 11

def c13_families(N, rng):
    fam = []
    for m in (2, 8, 16, 31, 32, 33, 64, 256, 1024, 4096):
        if m * 2 > N:
            continue
        unit = b"a" * (m - 1) + b"b"
        fam.append(("a^m in (a^(m-1)b)^r", b"a" * m, (unit * (N // m + 1))[:N]))
        fam.append(("a^(m-1)b in a^N", b"a" * (m - 1) + b"b", b"a" * N))
        fam.append(("ba^(m-1) in a^N", b"b" + b"a" * (m - 1), b"a" * N))
    for k in (4, 20, 100):
        x = b"ab" * k + b"c"
        if len(x) * 2 <= N:
            fam.append(("(ab)^k c in (ab)^*", x, (b"ab" * (N // 2 + 1))[:N]))
            fam.append(("(ab)^k c in ((ab)^k d)^*", x, ((b"ab" * k + b"d") * (N // (2 * k + 1) + 1))[:N]))
        x = b"abc" * k
        if len(x) * 2 <= N:
            fam.append(("(abc)^k in near-periods", x, ((b"abc" * (k - 1) + b"abd") * (N // (3 * k) + 1))[:N]))
    for L in (21, 34, 55, 89, 233):
        if L * 2 <= N:
            fam.append(("fibonacci", fib_word(L), fib_word(N)))
            fam.append(("thue-morse", thue_morse(L), thue_morse(N)))
    # two rare bytes at every haystack position
    for x in (b"xy" + b"z" * 40, b"xy" + b"q" * 6, b"xyxyxyxyxyxyxyxyxyxyxyxyxyxyxyxyxyxyxyxyxyz"):
        fam.append(("rare pair everywhere", x, (b"xy" * (N // 2 + 1))[:N]))
        fam.append(("rare pair + filler", x, ((x[:2] + b"q") * (N // 3 + 1))[:N]))
        # huge candidate-free prefix, then a dense false-candidate region (keeps the adaptive prefilter on)
        fam.append(("free prefix then dense", x, b"-" * (N // 2) + ((x[:2] + b"q") * (N // 6 + 1))[: N // 2]))
        fam.append(("alternating sparse/dense", x, ((b"-" * 400) + (x[:3] + b"Q") * 49) * (N // 600 + 1)))
    # a long match-free stretch next to many matches (both orders): complete traversals
    for x in (b"ab", b"abcdefgh" * 5):
        Mm = N // (4 * len(x))
        fam.append(("free stretch then matches", x, b"x" * (N // 2) + x * Mm))
        fam.append(("matches then free stretch", x, x * Mm + b"x" * (N // 2)))
    # periodic long needle vs its own near-periods with the prefilter kept effective
    x = (b"abcdefgh" * 6)[:45]
    fam.append(("periodic long in near-period", x, ((b"-" * 90) + x[:-1] + b"!" + x[8:-1] + b"!") * (N // 180 + 1)))
    return [(name, x, h[:N]) for (name, x, h) in fam]

def gen_c13(tier, rng):
    quick = tier == "quick"
    sizes = [1 << 8, 1 << 10, 1 << 12, 1 << 14] if quick else [1 << 8, 1 << 10, 1 << 12, 1 << 14, 1 << 16, 1 << 18, 1 << 20]
    cases = []
    k = 0
    for N in sizes:
        for (name, x, h) in c13_families(N, rng):
            k += 1
            if N >= (1 << 18) and k % 3:
                continue
            cpu = CPUS[k % 3] if N <= (1 << 14) else ""
            cpus = f" cpu={cpu}" if cpu else ""
            cfg = ["auto", "none"][k % 2] if N <= (1 << 12) else "auto"
            cases.append(f"mm f=find cfg={cfg} rank=default{cpus} x={hexs(x)} h={hexs(h)} a={k % 64}")
            if N <= (1 << 14):
                cases.append(f"mm f=rfind x={hexs(x)} h={hexs(h)} a={k % 64}")
                nf = len(greedy_py(h, x)); nr = len(rgreedy_py(h, x))
                cases.append(f"mmiter dir=f cfg=auto rank=default{cpus} k={nf + 1} x={hexs(x)} h={hexs(h)}")
                if N <= (1 << 12):
                    cases.append(f"mmiter dir=r k={nr + 1} x={hexs(x)} h={hexs(h)}")
    # small-period long needles with the prefilter kept busy: haystacks made of near-copies (one byte wrong anywhere),
    # borders, periods and candidate-free filler; step traces are compared with the model (<= 2100 bytes)
    for r in range(60 if quick else 1500):
        pp = rng.choice([3, 5, 8, 13, 17, 22, 32]); L = rng.choice([33, 40, 47, 64, 100])
        w = bytes(rng.choice(b"abcde") for _ in range(pp))
        x = (w * (L // pp + 2))[:L]
        toks = [x, x[:L - 1], x[1:], x[pp:], x[:pp], w, b"-" * 9, b"-" * 40, b"-" * 200]
        hb = b""
        while len(hb) < (1800 if r % 4 else 500):
            if rng.random() < 0.5:
                y = bytearray(x); y[rng.randrange(L)] = rng.choice(b"abcdef-"); hb += bytes(y)
            else:
                hb += rng.choice(toks)
        hb = hb[:2050]
        k += 1
        cpu = CPUS[k % 3]
        cpus = f" cpu={cpu}" if cpu else ""
        cases.append(f"mm f=find cfg=auto rank={['default', 'rev', 'id'][k % 3]}{cpus} x={hexs(x)} h={hexs(hb)} a={k % 64}")
        if k % 5 == 0:
            cases.append(f"mmiter dir=f cfg=auto rank=default{cpus} k={len(greedy_py(hb, x)) + 1} x={hexs(x)} h={hexs(hb)}")
    # exhaustive small binary strings
    for x in words(b"ab", 4, 1):
        for h in words(b"ab", 8 if quick else 10, 4):
            k += 1
            if quick and k % 3:
                continue
            cases.append(f"mm f=find cfg=auto rank=default x={hexs(x)} h={hexs(h)}")
    return cases

def gen_c13_escalate(rng):
    """sizes at which a cost per haystack byte that grows with the needle (a removed cap on the packed-pair needle length,
    Rabin-Karp let loose on long haystacks, lost Two-Way memory) exceeds the proved constant; run on the implementation only"""
    cases = []
    # preprocessing alone: needles R^k t R^k t' (R the extreme byte value, the second run's terminator losing against the
    # first) make a maximal/minimal-suffix scan that re-examines what it has just compared quadratic; the haystack is
    # irrelevant, so these are the cheapest cases and come first  (seeded change C13-i)
    for kk in (1 << 13, 1 << 15):
        for (R_, t1, t2) in ((0x00, 0x01, 0x02), (0xff, 0x02, 0x01), (0x00, 0x02, 0x01), (0xff, 0x01, 0x02)):
            x = bytes([R_]) * kk + bytes([t1]) + bytes([R_]) * kk + bytes([t2])
            cases.append(f"mm f=find cfg=auto rank=default x={hexs(x)} h={hexs(b'q' * 100)}")
            cases.append(f"mm f=rfind x={hexs(x[::-1])} h={hexs(b'q' * 100)}")
    for (N, m) in ((1 << 18, 1 << 16), (1 << 19, 1 << 17)):
        unit = b"a" * (m - 1) + b"b"
        cases.append(f"mm f=find cfg=auto rank=default x={hexs(b'a' * m)} h={hexs((unit * (N // m + 1))[:N])}")
        cases.append(f"mm f=find cfg=auto rank=default x={hexs(b'a' * (m - 1) + b'b')} h={hexs(b'a' * N)}")
        cases.append(f"mm f=find cfg=none rank=default x={hexs(b'b' + b'a' * (m - 1))} h={hexs(b'a' * N)}")
        cases.append(f"mm f=find cfg=none rank=default x={hexs(b'a' * (m - 1) + b'b')} h={hexs(b'a' * N)}")
        cases.append(f"mm f=find cfg=none rank=default x={hexs(b'a' * m)} h={hexs((unit * (N // m + 1))[:N])}")
        cases.append(f"mm f=rfind x={hexs(b'b' + b'a' * (m - 1))} h={hexs(b'a' * N)}")
        cases.append(f"mm f=rfind x={hexs(b'a' * m)} h={hexs(((b'b' + b'a' * (m - 1)) * (N // m + 1))[:N])}")
        # haystacks shorter than twice the needle
        cases.append(f"mm f=find cfg=auto rank=default x={hexs(b'a' * (m - 41) + b'b' + b'a' * 40)} h={hexs(b'a' * (2 * m - 1))}")
        cases.append(f"mm f=rfind x={hexs(b'a' * (m - 1) + b'b')} h={hexs(b'a' * (2 * m - 1))}")
        x = (b"abcdefgh" * (m // 8))[:m - 3]
        cases.append(f"mm f=find cfg=auto rank=default x={hexs(x)} h={hexs(((b'-' * 90) + x[:-1] + b'!' + x[8:-1] + b'!') * 2)}")
    # complete traversals over a long match-free stretch next to many matches: work that is repeated per call
    # (re-scanning the stretch, re-building state) multiplies the two  (seeded change C13-e)
    for (L, M) in ((1 << 16, 1 << 15), (1 << 17, 1 << 16)):
        for x in (b"ab", b"abcdefgh" * 5):
            hr = b"x" * L + x * M
            hf = x * M + b"x" * L
            cases.append(f"mmiter dir=r k={M + 1} x={hexs(x)} h={hexs(hr)}")
            cases.append(f"mmiter dir=f cfg=auto rank=default k={M + 1} x={hexs(x)} h={hexs(hf)}")
            cases.append(f"mmiter dir=r k={M + 1} x={hexs(x)} h={hexs(hf)}")
            cases.append(f"mmiter dir=f cfg=none rank=default k={M + 1} x={hexs(x)} h={hexs(hr)}")
    return cases

def oracle_c13(op, kv, res, trace, flags):
    x = bytes.fromhex(kv.get("x", "")); h = bytes.fromhex(kv.get("h", ""))
    if res.startswith("Panic") or res.startswith("CRASH"):
        return f"{op} did not return normally: {res}"
    if trace == "?":
        return None
    n, m = len(h), len(x)
    st = steps_of(trace)
    if op == "mmiter":
        # Props/C13.v, C13_iter_any / C13_riter_any with no None before the last call (the cases ask for matches + 1 calls):
        #   W * (|h| + 1) + C * k + 5 * |x| + 8,   (W, C) = (4907, 4909) forward, (70, 72) reverse
        calls = int(kv["k"])
        W, C = ((70, 72) if kv.get("dir") == "r" else (4907, 4909))
        bound = W * (n + 1) + C * calls + 5 * m + 8
    else:
        bound = c13_bound(kv, n, m)
    if st > bound:
        return (f"{op} {kv.get('f', kv.get('dir', ''))} performed {st} elementary steps on |h|={n}, |x|={m} "
                f"({st / max(1, n + m):.1f} per byte), above the proved linear bound {bound}")
    return None

def nontrivial_c13(op, kv):
    return len(kv.get("h", "")) >= 512
