#!/usr/bin/env python3
"""Extraction cross-check: evaluate a sample of a run's cases INSIDE Coq (vm_compute over the Gallina
definitions, coq/Cases/Eval.v) and compare result and step count with what the extracted OCaml driver
printed for the same cases.  The Rust code is compared with the extracted program; this ties the extracted
program to the definitions the theorems are about."""
import os, re, subprocess, sys
sys.path.insert(0, os.path.dirname(os.path.abspath(__file__)))
import vlib, gens

BE = {"swar": "BSwar", "sse2": "BSse2", "avx2": "BAvx2", "neon": "BNeon", "simd128": "BSimd128"}

def nlist(hexstr):
    b = bytes.fromhex(hexstr)
    return "[" + "; ".join(str(x) for x in b) + "]%N" if b else "(@nil N)"

def backend(kv):
    be, cpu = kv.get("be", ""), kv.get("cpu", "")
    if be in BE:
        return BE[be]
    if be == "top":
        if cpu in ("neon", "simd128"):
            return BE[cpu]
        return "(x86_choice %s)" % {"sse2": "Sse2Only", "none": "NoSimd"}.get(cpu, "HasAvx2")
    return None

def arch(kv):
    cpu = kv.get("cpu", "")
    if cpu == "neon":
        return "AAarch64"
    if cpu == "simd128":
        return "AWasm"
    return "(AX86 %s)" % {"sse2": "Sse2Only", "none": "NoSimd"}.get(cpu, "HasAvx2")

def rank(kv):
    r = kv.get("rank", "default")
    if r in ("", "default"):
        return "default_rank"
    if r == "id":
        return "rank_id"
    if r == "const0":
        return "(rank_const 0%N)"
    if r == "const255":
        return "(rank_const 255%N)"
    return None

def term(op, kv):
    """Coq term for a case, or None when the case is outside what Eval.v covers"""
    if any(k in kv for k in ("al", "fl", "fln", "fx", "fy", "rev", "low")):
        return None
    if op in ("find", "rfind", "count") and kv.get("raw") == "1":
        b = backend(kv)
        if b is None or len(kv.get("h", "")) > 600:
            return None
        return f"ev_{op}_raw {b} {nlist(kv['ns'])} {int(kv.get('a', 0))} {nlist(kv.get('h', ''))} {int(kv['so'])} {int(kv['eo'])}"
    if "raw" in kv:
        return None
    if op in ("find", "rfind", "count"):
        b = backend(kv)
        if b is None or len(kv.get("h", "")) > 600:
            return None
        return f"ev_{op} {b} {nlist(kv['ns'])} {int(kv.get('a', 0))} {nlist(kv.get('h', ''))}"
    if op == "mm":
        if len(kv.get("h", "")) > 500 or len(kv.get("x", "")) > 200:
            return None
        f = kv.get("f")
        a = int(kv.get("a", 0))
        if f == "top":
            return f"ev_mm_top {arch(kv)} {a} {nlist(kv.get('h', ''))} {nlist(kv.get('x', ''))}"
        if f == "rtop":
            return f"ev_mm_rtop {arch(kv)} {a} {nlist(kv.get('h', ''))} {nlist(kv.get('x', ''))}"
        if f == "rfind":
            return f"ev_mm_rfind {arch(kv)} {a} {nlist(kv.get('h', ''))} {nlist(kv.get('x', ''))}"
        if f == "find":
            rk = rank(kv)
            if rk is None:
                return None
            cfg = "PNone" if kv.get("cfg") == "none" else "PAuto"
            return f"ev_mm_find {cfg} {rk} {arch(kv)} {a} {nlist(kv.get('h', ''))} {nlist(kv.get('x', ''))}"
        return None
    if op in ("iseq", "ispre", "issuf"):
        return f"ev_{op} {nlist(kv.get('x', ''))} {nlist(kv.get('y', ''))}"
    if op == "iter":
        b = backend(kv)
        if b is None or len(kv.get("h", "")) > 500:
            return None
        ops = "[" + "; ".join({"N": "ONext", "B": "OBack", "S": "OHint", "C": "OCount"}[c] for c in kv.get("ops", "")) + "]"
        return f"ev_iter {b} {nlist(kv['ns'])} {int(kv.get('a', 0))} {nlist(kv.get('h', ''))} {ops}"
    if op == "mmiter":
        if len(kv.get("h", "")) > 400 or len(kv.get("x", "")) > 200:
            return None
        a = int(kv.get("a", 0)); k = int(kv["k"])
        if kv.get("dir") == "r":
            return f"ev_mmiter_rev {arch(kv)} {a} {nlist(kv.get('h', ''))} {nlist(kv.get('x', ''))} {k}"
        rk = rank(kv)
        if rk is None:
            return None
        cfg = "PNone" if kv.get("cfg") == "none" else "PAuto"
        return f"ev_mmiter_fwd {cfg} {rk} {arch(kv)} {a} {nlist(kv.get('h', ''))} {nlist(kv.get('x', ''))} {k}"
    if op in ("twfind", "twrfind"):
        if len(kv.get("h", "")) > 400 or len(kv.get("x", "")) > 200 or len(kv.get("x", "")) == 0:
            return None
        if op == "twfind":
            return f"ev_twfind {nlist(kv['x'])} {int(kv.get('a', 0))} {nlist(kv.get('h', ''))}"
        return f"ev_twrfind {nlist(kv['x'])} {nlist(kv.get('h', ''))}"
    if op in ("rkfind", "rkrfind"):
        if len(kv.get("h", "")) > 400:
            return None
        nx = kv.get("nx") or kv.get("x", "")
        return f"ev_{op} {nlist(nx)} {nlist(kv.get('x', ''))} {nlist(kv.get('h', ''))}"
    return None

MOD = 2305843009213693951

def _code_opt(s):
    if s == "None":
        return 0
    return 4 * int(s[5:-1]) + 1

def _fold(codes):
    acc = 0
    for c in codes:
        acc = (acc * 1000003 + c + 1) % MOD
    return acc

def canon_model(op, res, trace):
    """(tag, value, steps) from the extracted driver's output line"""
    steps = gens.steps_of(trace)
    if res.startswith("Panic"):
        return (2, 0, steps)
    if op in ("iter", "mmiter"):
        codes = []
        for item in ([] if res in ("-", "") else res.split(";")):
            if ":" in item:                      # find_iter: "<lo>-<hi>:<item>"
                hint, it = item.split(":")
                lo, hi = hint.split("-")
                codes += [4 * (int(lo) * 1048576 + int(hi)) + 2, _code_opt(it)]
            elif item.startswith("Some(") or item == "None":
                codes.append(_code_opt(item))
            elif "-" in item:
                lo, hi = item.split("-")
                codes.append(4 * (int(lo) * 1048576 + int(hi)) + 2)
            else:
                codes.append(4 * int(item) + 3)
        return (1, _fold(codes), steps)
    if res == "None":
        return (0, 0, steps)
    m = re.match(r"^Some\((\d+)\)$", res)
    if m:
        return (1, int(m.group(1)), steps)
    if res in ("true", "false"):
        return (1, 1 if res == "true" else 0, steps)
    if re.match(r"^\d+$", res):
        return (1, int(res), steps)
    return None

def crosscheck(pid, cases, model_rows, max_cases=300, timeout=900):
    """returns dict(evaluated=n, mismatches=[...], error=str|None)"""
    picked = []
    for i, line in enumerate(cases):
        op, kv = vlib.parse_case(line)
        t = term(op, kv)
        if t is None or model_rows[i][0] == "#":
            continue
        cm = canon_model(op, *model_rows[i])
        if cm is None:
            continue
        picked.append((i, t, cm))
    if not picked:
        return dict(evaluated=0, mismatches=[], error=None)
    step = max(1, len(picked) // max_cases)
    picked = picked[::step][:max_cases]
    path = os.path.join(vlib.CASES, f"vm_{pid}_{os.getpid()}.v")
    os.makedirs(vlib.CASES, exist_ok=True)
    with open(path, "w") as f:
        f.write("From Coq Require Import List NArith.\nImport ListNotations.\n")
        f.write("From Memchr Require Import Params Mem.Wrappers Mem.Iter Sub.TwoWay Sub.Searcher Sub.Pair Cases.Eval.\n")
        f.write("Eval vm_compute in [\n  " + ";\n  ".join(t for (_, t, _) in picked) + "\n].\n")
    try:
        p = subprocess.run(["coqc", "-noglob", "-Q", vlib.COQ, "Memchr", path], stdout=subprocess.PIPE,
                           stderr=subprocess.STDOUT, text=True, timeout=timeout)
        out = p.stdout
        rc = p.returncode
    except subprocess.TimeoutExpired:
        out, rc = "TIMEOUT", 124
    finally:
        for ext in ("", "o", "os", "ok"):
            try:
                os.remove(path + ext if ext else path)
            except OSError:
                pass
        for ext in (".vo", ".vos", ".vok", ".glob"):
            try:
                os.remove(path[:-2] + ext)
            except OSError:
                pass
    if rc != 0:
        return dict(evaluated=0, mismatches=[], error=out[-600:])
    triples = [(int(a), int(b), int(c)) for (a, b, c) in re.findall(r"\(\s*(\d+)(?:%N)?\s*,\s*(\d+)(?:%N)?\s*,\s*(\d+)(?:%N)?\s*\)", out)]
    if len(triples) != len(picked):
        return dict(evaluated=0, mismatches=[], error=f"{len(triples)} results for {len(picked)} terms: {out[-300:]}")
    mism = []
    for (i, t, cm), got in zip(picked, triples):
        if got != cm:
            mism.append(f"case {cases[i][:160]}: extracted driver {cm}, vm_compute {got}")
    return dict(evaluated=len(picked), mismatches=mism, error=None)
