"""Texts for MANIFEST.json (kept next to the registry so that the manifest is generated, never hand-edited)."""

HOOK_COMMITS = ["6b17151", "e0e8847", "65427f2", "0fbf58c", "29762a5", "be72d47", "384c0f1", "b429189", "c1f9336", "e0edcbe", "b4147e7"]

NOTES = ("Every check regenerates coq/Params.v from /repo, re-runs coqc on the property's theorems, rebuilds the harness "
         "from /repo's working tree with --cfg memchr_verif and compares the extracted model with the real crate. "
         "See DESIGN.md.")

PENDING = "machinery for this property is not finished yet in this round; not claimed until its theorems and correspondence exist (DESIGN.md section 11)"

NOT_APPLICABLE = {p: PENDING for p in
                  ["C01", "C02", "C03", "C04", "C05", "C06", "C07", "C08", "C09", "C10", "C11", "C12", "C13",
                   "C14", "C15", "C16", "C17", "C18", "C19"]}

_MEM_NOTE = ("Trusted: Coq kernel; hand-written model of arch/generic/memchr.rs, arch/all/memchr.rs and the per-ISA wrappers, tied "
             "to the code by results and exact load traces (offset, width, aligned flag) on every run; vector intrinsics below the "
             "lane level; x & (BYTES-1) = x mod BYTES. No axioms. NEON/simd128 code paths are covered by the theorems (MaskLaws Neon 16, "
             "Sensible) but executed only through emulation in the thorough tier.")

CHECKS = {
 "C01": dict(
    text="C01_generic proves gen_find = first_idx for every vector width B, unroll U, start address and every mask representation "
         "satisfying MaskLaws; sensible_laws/neon_laws prove the laws for the u32 bitmask and the NEON nibble mask; swar_find_sat covers "
         "the SWAR code for any word size using has_needle_complete (no false negatives of the has_zero_byte trick); C01_backend/"
         "C01_dispatch lift this through the short-haystack routing of every backend and every CPU detection outcome, and show every "
         "load in bounds and aligned when marked aligned. C01_raw / C01_raw_inside: the raw-pointer forms return None when start >= end (also for an inverted range) and otherwise an index inside [start, end) that is the first match of the range, with every load inside the range.",
    design_ref="DESIGN.md section 6 (C01)", note=_MEM_NOTE,
    technique="Coq proof: loop invariants over head chunk / unrolled aligned loop / vector loop / overlapping tail, parametric in width, unroll, alignment and mask representation + trace-level differential correspondence",
 ),
 "C02": dict(
    text="C02_generic / C02_backend / C02_dispatch: gen_rfind = last_idx for all widths, unrolls, END alignments and both mask "
         "representations (last_offset = 31 - clz32 resp. 15 - (clz64 >> 2) proved in Vec/MaskLaws.v), SWAR reverse scan, wrappers.",
    design_ref="DESIGN.md section 6 (C02)", note=_MEM_NOTE,
    technique="Coq proof: reverse loop invariants ('no match at or after cur'), parametric as C01 + trace-level differential correspondence",
 ),
 "C03": dict(
    text="C03_memmem_find_partial / C03_finder_partial: memmem::find and Finder::find (any prefilter setting, EVERY ranker function, every CPU "
         "detection outcome / architecture, every prefilter state) return Ok (find_spec x h) = the leftmost occurrence, for every haystack and every "
         "needle. C03_memmem_find / C03_finder are UNCONDITIONAL: the Two-Way loops are proved under a decidable certificate (Tier 1) and the "
         "certificate is proved for every non-empty needle (Tier 2: the modelled maximal-suffix computation returns the maximal suffix and its "
         "period, MaxSuffixProofs.v; critical factorisation theorem, CritFact.v). Built from block theorems: Rabin-Karp, packed pair, prefilter "
         "soundness (vector, portable, find_simple), Two-Way, SWAR/vector memchr.",
    design_ref="DESIGN.md section 6 (C03)", note=_MEM_NOTE,
    technique="Coq proof: composition of block theorems through the modelled meta searcher; Two-Way via loop invariants + critical factorisation theorem + correctness of the maximal-suffix algorithm; differential correspondence incl. strategy labels and step traces",
 ),
 "C04": dict(
    text="C04_memmem_rfind_partial / C04_finder_rev_partial: memmem::rfind and FinderRev::rfind return Ok (rfind_spec x h) = the rightmost occurrence "
         "(empty needle: haystack.len()), via reverse Rabin-Karp, memrchr and the reverse Two-Way loops. C04_memmem_rfind / C04_finder_rev are "
         "UNCONDITIONAL: the reverse preprocessing is proved to be the mirror image of the forward preprocessing of the reversed needle "
         "(TwoWayTier2Rev.v), which transfers the critical-factorisation result.",
    design_ref="DESIGN.md section 6 (C04)", note=_MEM_NOTE,
    technique="Coq proof: reverse loop invariants + mirror-image simulation of the reverse preprocessing onto the forward one + differential correspondence",
 ),
 "C05": dict(
    text="Props/C05.v: for every modelled entry point and ALL inputs and placements, every load of the trace lies inside the haystack resp. needle "
         "slice and is aligned when marked aligned: byte search on every backend and through iterators (C05_memchr/C05_count/C05_iter), "
         "is_equal family (C18), Rabin-Karp with ANY finder and argument needle (C05_rabinkarp_foreign), packed-pair find with an ARBITRARY "
         "argument needle incl. longer than the haystack (C05_packedpair_foreign; pointer arithmetic is modelled checked, so the theorem says no "
         "out-of-slice pointer is even formed), prefilters, Two-Way preprocessing (needle-only loads); Shift-Or/Two-Way/Pair use bounds-checked "
         "indexing only (no Load events). The obligation C05_guard_form ties the theorem to the form of the confirm guard in the source.",
    design_ref="DESIGN.md sections 6 (C05) and 7.2", note=_MEM_NOTE + " Not modelled: that intrinsics read exactly `width` bytes; provenance.",
    technique="Coq proof: load-trace safety theorems (satq load_ok) for every routine, checked pointer arithmetic + correspondence of load traces + guard pages/bounds oracle for the failing-input search",
 ),
 "C06": dict(
    text="C06_run: for every backend, needle set, haystack, start address and every history of next/next_back/size_hint/count calls the "
         "modelled iterator produces exactly what a double-ended queue of the match positions produces (next pops the front, next_back "
         "the back, None once empty and forever after, size_hint brackets the queue length); C06_queue_contents/C06_queue_sorted: the "
         "queue holds exactly the matching positions, strictly ascending (hence no position twice). Proved by refinement "
         "(abstraction function absw: window -> queue) on top of C01/C02 for sub-windows at arbitrary alignment.",
    design_ref="DESIGN.md section 6 (C06)", note=_MEM_NOTE,
    technique="Coq proof: refinement of the iterator state machine to a deque, induction over operation histories + differential correspondence on histories",
 ),
 "C07": dict(
    text="C07_generic / C07_backend: gen_count (scalar head to alignment, unrolled popcounts, vector loop, scalar tail) returns "
         "count_p for all widths/alignments and both mask representations (popcount law incl. the NEON one-bit-per-nibble mask); "
         "SWAR byte loop; wrappers. C07_iter_count: count() in any reachable iterator state returns the length of the remaining queue (matches not yet yielded).",
    design_ref="DESIGN.md section 6 (C07)", note=_MEM_NOTE,
    technique="Coq proof: counting invariant acc = count_p (firstn cur h) + trace-level differential correspondence",
 ),
 "C08": dict(
    text="C08_find_iter (unconditional): for every finder configuration, ranker, CPU, needle, haystack and number of calls k, the k outputs of find_iter are the "
         "greedy sequence (leftmost occurrence, resume needle.len().max(1) further) followed by None forever, and the size_hint taken before "
         "each call brackets the number of matches still to come (upper bound rest/needle.len() proved from the spacing of greedy matches); "
         "C08_rfind_iter: the mirror sequence; C08_empty_needle / C08_rev_empty_needle: every offset 0..=len ascending resp. descending. "
         "The iterator carries its prefilter state across calls: the proof uses C03 for EVERY state.",
    design_ref="DESIGN.md section 6 (C08)", note=_MEM_NOTE + "",
    technique="Coq proof: induction over the number of calls on the modelled FindIter/FindRevIter state machines, relative to C03/C04 + differential correspondence of iteration histories",
 ),
 "C09": dict(
    text="Props/C09.v: for the same arguments any two backends (SWAR, SSE2, AVX2, NEON, simd128), any two CPU-detection outcomes and any two "
         "architectures give the same result: memchr family, count, iterator histories (C09_iter), memmem::find (C09_memmem_find, unconditional) "
         "and memmem::rfind; corollaries of 'each equals the specification'. Cargo features and compile-time target features only change "
         "is_available(), i.e. the model's cpu/arch parameter. The tie does most of the work here: the same cases run through six real builds "
         "and three forced dispatch outcomes must all print identical answers.",
    design_ref="DESIGN.md section 6 (C09)", note=_MEM_NOTE,
    technique="Coq proof: corollary of the per-backend specification theorems for every backend/arch value + multi-build, forced-dispatch differential run",
 ),
 "C10": dict(
    text="C10_config_and_ranker_irrelevant (unconditional): for any two prefilter settings, any two ranker FUNCTIONS (quantified over all N -> N) and any "
         "start addresses the finder results coincide; C10_prefilter_state_irrelevant: for any two prefilter states (effective, inert, "
         "saturated) Searcher::find gives the same answer, equal to find_spec. Corollaries of C03 (which quantifies over configuration, ranker and "
         "state), with C19 (every ranker yields a valid pair) and C11 (every valid pair gives a sound prefilter) inside.",
    design_ref="DESIGN.md section 6 (C10)", note=_MEM_NOTE + "",
    technique="Coq proof: corollary of the C03 theorem, universally quantified over ranker functions, configurations and prefilter states + configuration-grid differential run",
 ),
 "C11": dict(
    text="C11_vector_prefilter (all four ISAs incl. the AVX2 wrapper's SSE2 route) and C11_generic_prefilter (any width / mask representation "
         "obeying MaskLaws): for every needle, valid pair and haystack >= min_haystack_len the candidate is <= the first occurrence and has both "
         "pair bytes at their offsets; None only without an occurrence; loads in bounds. Key arithmetic: min_haystack_len - BYTES < needle.len(), "
         "so the re-aligned last chunk covers every possible occurrence start.",
    design_ref="DESIGN.md section 6 (C11)", note=_MEM_NOTE,
    technique="Coq proof: chunk-scan invariant with the pair-mask lemma, parametric in width and mask representation + differential correspondence (results, load traces)",
 ),
 "C12": dict(
    text="Block theorems, each '= Ok (find_spec/rfind_spec ...)' for every needle and haystack of the block's domain: Rabin-Karp forward/reverse "
         "(rolling hash = hash of the window, algebra mod 2^32, valid also when 2^(n-1) wraps to 0), Shift-Or (state invariant bit j = 0 iff "
         "x[0..j) is a suffix of the bytes read; constructor None exactly above 15 bytes), packed-pair find on every ISA (panic exactly below "
         "min_haystack_len). Two-Way forward/reverse (C12_twoway_find / C12_twoway_rfind): every non-empty needle, every haystack "
         "(loop invariants under a decidable certificate + the certificate for every needle: maximal-suffix algorithm and critical "
         "factorisation theorem).",
    design_ref="DESIGN.md section 6 (C12)", note=_MEM_NOTE,
    technique="Coq proofs: loop invariants (rolling-hash algebra, bit-level Shift-Or state, chunk scan) + differential correspondence (results, load/step traces)",
 ),
 "C13": dict(
    text="C13_find / C13_finder / C13_searcher_reuse / C13_rfind / C13_rfinder: for EVERY haystack, needle, address, architecture / CPU outcome, prefilter "
         "setting, ranker and incoming prefilter state, building the finder and searching performs at most 4906 * (|h| + 1) + 6 * |x| + 11 elementary steps "
         "forward and 70 * (|h| + 1) + 6 * |x| + 11 in reverse (steps = raw loads + loop ticks of the model's trace, the same events the hooks record and "
         "the correspondence compares). Built from per-block cost theorems: memchr family 2|h|+16, memcmp n/2+4, Rabin-Karp |x|+(|h|+1)(|x|/2+6) (only "
         "reached for haystacks below the generated thresholds 16/64), packed pair (|h|/16+2)(3+32(|x|/2+5)) with |x| capped by the generated "
         "packed_max_len (C13_params fails if MAX_LEN is raised beyond 64), Two-Way preprocessing 5|x|+8 and search 3|h|+|x|+3 by a potential "
         "argument using the Tier-2 facts (critical position, exact period, large-shift value), prefilters 19 per skipped byte + 4883 per call amortised "
         "against the prefilter's skip; the small-period case WITH a prefilter (which throws the Two-Way memory away) by a Fine-Wilf spacing argument "
         "(Sub/CostTwoWaySmall.v: two windows whose right part matches and whose left part fails are more than n-cp-p apart). "
         "Complete traversals: C13_iter_complete / C13_riter_complete (next until the first None yields exactly the greedy sequence in at most "
         "(4907+4909)(|h|+2) resp. 142(|h|+2) steps) and C13_iter_any / C13_riter_any for any number of calls, from hit-aware bounds (Sub/CostHit.v: a call "
         "reporting a match at i costs O(i+|x|)) summed by a potential argument over the iterator position (Sub/CostIter.v).",
    design_ref="DESIGN.md section 0.5", note="Trusted: Coq kernel; the cost-exact hand-written model, tied to the code by comparing whole step traces (digests) on every run; "
         "the placement of hooks (one event per load / loop iteration). No axioms.",
    technique="Coq proof: amortised (potential-function) step-cost bounds over the modelled loops incl. a Fine-Wilf periodicity argument, composed through the meta searcher + step-trace differential correspondence; growth families against the proved bound",
 ),
 "C14": dict(
    text="Props/C14.v: the model returns Ok (never Panic) for memmem::find/rfind, Finder/FinderRev for every prefilter configuration, ranker and CPU, "
         "all constructors for EVERY needle (Two-Way preprocessing indices and subtractions, pair selection asserts), byte search and iterators on "
         "every backend, Rabin-Karp with any finder, Two-Way (under its certificate), and PrefilterState::is_effective from ANY state "
         "(C14_prestate_no_overflow; tied to the source by the obligation C14_saturating_multiply); packed-pair find panics exactly below "
         "min_haystack_len (C14_packedpair_panic_exact). Panics are first-class in the model: idx, csub, checked multiply, guard.",
    design_ref="DESIGN.md sections 6 (C14) and 7.1", note=_MEM_NOTE,
    technique="Coq proof: every result theorem has the form '= Ok ...' over a model with explicit panics; checked-arithmetic obligation on the prefilter state + debug/overflow-check build under catch_unwind",
 ),
 "C15": dict(
    text="C15_dispatch: an interleaving model of the unsafe_ifunc! cell (atomic steps: load FN, [detect,] store, call; loads may observe ANY value "
         "stored so far): for every number of threads, every list of calls per thread, every schedule, every choice of observed values and every "
         "CPU, each completed call returns exactly its isolated (= specification) result (invariant: the store only ever holds `detect` or the one "
         "implementation chosen for this CPU, C15_single_choice; plus C01/C02 for that implementation). Shared finders are immutable values "
         "(C16). PARTIAL by nature: the model cannot exhibit data races, torn reads or weak-memory effects on non-atomic data; those are only "
         "sampled by the runtime part (fresh processes, barrier-released threads, forced CPU variants).",
    design_ref="DESIGN.md section 6 (C15)", note=_MEM_NOTE + " Not modelled: the Rust memory model beyond per-location coherence, unsafe impl Send/Sync for Iter.",
    technique="Coq proof over all interleavings of an atomic-step model of the dispatch cell (partial: no weak-memory/data-race semantics) + fresh-process multi-thread differential runs",
 ),
 "C16": dict(
    text="C16_reuse / C16_reuse_rev (unconditional): for a finder built from x, EVERY later search over ANY list of haystacks, from ANY prefilter "
         "state, returns find_spec x h (rfind_spec): the answer depends on the needle and that haystack only; C16_needle: needle() is the "
         "construction needle; C16_iter_resume: an iterator continued from any of its states (what clone/into_owned copy) produces exactly the "
         "remaining outputs. The theorems are about immutable model values; the copying behaviour of clone/as_ref/into_owned (incl. after the "
         "original needle buffer is overwritten) is decided by running the same operation histories on the real crate.",
    design_ref="DESIGN.md section 6 (C16)", note=_MEM_NOTE + " Clone derives, CowBytes and lifetimes are not modelled.",
    technique="Coq proof: results of reuse are the specification of needle and haystack for every prefilter state; iterator run-splitting + differential correspondence on operation histories with buffer scribbling",
 ),
 "C17": dict(
    text="Props/C17.v: Spec.load_ok rejects Alloc events, so every result/safety theorem of the development also proves that the model's trace "
         "contains no Alloc: memchr family and iterators, finder construction + find for every strategy, memmem::find/rfind, find_iter; Shift-Or "
         "emits exactly one Alloc in its constructor and none while searching. This theorem is weak by nature (the model allocates only where an "
         "Alloc was written by hand); the property is DECIDED by the correspondence: a counting global allocator measures each API call of the "
         "real crate and the count must equal the model's number of Alloc events (0; at most 1 for into_owned / shiftor::Finder::new), in the "
         "default, alloc-only and no-default-features builds.",
    design_ref="DESIGN.md section 6 (C17)", note=_MEM_NOTE + " The proof part is about the model's events only; the allocation probe is what observes the compiled code.",
    technique="Coq proof that model traces contain no Alloc event (weak) + allocation-count correspondence with a counting global allocator in three feature configurations",
 ),
 "C18": dict(
    text="Theorems C18_is_equal / C18_is_prefix / C18_is_suffix / C18_is_equal_raw (coq/Props/C18.v) prove for all byte "
         "lists, lengths and placements that the modelled routines return exactly slice equality / starts_with / ends_with, "
         "never panic, and load only bytes inside their operands. The model is tied to src/arch/all/mod.rs by running both on "
         "the same cases and comparing results and the exact sequence of 4/2/1-byte loads.",
    design_ref="DESIGN.md section 6 (C18)",
    note="Trusted: Coq kernel; the hand-written model (checked against the code by results + load traces on every run); "
         "read_unaligned reads what the hook reports; u32/u16 compare = byte-list compare. No axioms.",
    technique="Coq proof by induction over the comparison loop (sat/Hoare-style writer monad) + trace-level differential correspondence",
 ),
 "C19": dict(
    text="Theorems C19_with_ranker / C19_with_indices (coq/Props/C19.v) prove for every ranker function and every needle that "
         "pair selection returns None exactly below 2 bytes and otherwise two distinct in-range offsets <= 254, without "
         "panicking (assert_ne and u8::try_from are modelled as panics and shown unreachable); the scan cap 255 and skip 2 "
         "are regenerated from the source and enter as proof obligations.",
    design_ref="DESIGN.md section 6 (C19)",
    note="Trusted: Coq kernel; model tied to src/arch/all/packedpair/mod.rs by differential runs over needles 0..=600 and "
         "constant/adversarial rankers; rankers are pure functions. No axioms.",
    technique="Coq proof: loop invariant over the ranker scan, parametric in the ranker + differential correspondence",
 ),
}
