#!/usr/bin/env python3
"""Writes MANIFEST.json from the registry (so it is always valid and current)."""
import json, os, sys
sys.path.insert(0, os.path.dirname(os.path.abspath(__file__)))
import props, manifest_text as T

def main():
    checks = []
    for pid in sorted(props.PROPS):
        t = dict(T.CHECKS[pid])
        groups = props.PROPS[pid].get("tie_groups")
        if groups:
            t["technique"] = t["technique"] + "; scalar kernels (" + ", ".join(groups) + ") TRANSLATED from the Rust source by tools/rs2coq.py on every run and proved equal to the model for all arguments (coq/Gen/Tie*.v)"
            t["note"] = t["note"] + " Translated-kernel tie: tools/rs2coq.py (Rust subset -> Gallina, fails closed) and the integer semantics coq/Gen/Ops.v are trusted for the groups " + ", ".join(groups) + "; a change to one of these functions changes a Coq term and the tie lemma must be re-proved."
        checks.append(dict(
            property_id=pid,
            quick_cmd=f"bin/check {pid} quick",
            thorough_cmd=f"bin/check {pid} thorough",
            evidence_file=f"/verif/evidence/{pid}.json",
            replay_cmd_template=f"bin/check {pid} --replay {{path}}",
            engine="coq-model+correspondence",
            level_claimed=dict(category="proof", text=t["text"], design_ref=t["design_ref"]),
            level_note=t["note"],
            technique=t["technique"],
        ))
    na = [dict(property_id=p, reason=r) for p, r in sorted(T.NOT_APPLICABLE.items()) if p not in props.PROPS]
    m = dict(
        version=1,
        setup_cmd="make -C /verif setup",
        hooks=dict(
            guard="memchr_verif",
            enable='RUSTFLAGS="--cfg memchr_verif" (set by tools/vlib.py harness_build; needs the std feature)',
            baseline_off_cmd="cd /repo && cargo test --workspace --no-fail-fast --offline",
            source_commits=T.HOOK_COMMITS,
            add_only=True,
        ),
        engines=[dict(name="coq-model+correspondence", path="/verif/coq, /verif/tools/check.py, /verif/tools/rs2coq.py, /verif/harness, /verif/model",
                      serves_properties=sorted(props.PROPS),
                      kind_free_text="machine-checked Coq 8.16 theorems about a hand-written executable model of the code; "
                                     "constants regenerated from the source on every run (tools/gen_params.py); 69 kernel functions (scalar kernels, the Two-Way preprocessing incl. its while loops, pair selection) "
                                     "translated from the Rust source to Gallina on every run (tools/rs2coq.py -> coq/Gen/Code*.v) and "
                                     "proved equal to the model (coq/Gen/Tie*.v); the rest of the model tied to the code by a "
                                     "differential run of the extracted model and the real crate (results and load traces)")],
        checks=checks,
        notes=T.NOTES,
        not_applicable=na,
    )
    with open(os.path.join(os.path.dirname(os.path.dirname(os.path.abspath(__file__))), "MANIFEST.json"), "w") as f:
        json.dump(m, f, indent=1)
        f.write("\n")

if __name__ == "__main__":
    main()
