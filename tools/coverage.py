#!/usr/bin/env python3
"""One-off analysis (not a registered check): which lines of /repo/src do the case files of the
quick (or thorough) tier execute?  Builds the harness with -C instrument-coverage (nightly toolchain,
its llvm-tools) in a scratch directory under /tmp, runs every property's generated cases, and prints
the uncovered regions of the crate.  Used to find code no generator reaches.

usage: coverage.py [quick|thorough] [C01,C02,...]
"""
import os, sys, random, subprocess, shutil, tempfile, re, glob
sys.path.insert(0, os.path.dirname(os.path.abspath(__file__)))
import vlib, props

def main():
    tier = sys.argv[1] if len(sys.argv) > 1 else "quick"
    ids = sys.argv[2].split(",") if len(sys.argv) > 2 else sorted(props.PROPS)
    scratch = tempfile.mkdtemp(prefix="memchr-cov-", dir="/tmp")
    try:
        tdir = os.path.join(scratch, "target")
        env = dict(os.environ, CARGO_NET_OFFLINE="true", CARGO_TARGET_DIR=tdir,
                   RUSTFLAGS="--cfg memchr_verif -C instrument-coverage", RUSTUP_TOOLCHAIN="nightly")
        p = subprocess.run(["cargo", "build", "--offline", "--manifest-path", os.path.join(vlib.VERIF, "harness", "Cargo.toml")],
                           env=env, stdout=subprocess.PIPE, stderr=subprocess.STDOUT, text=True)
        if p.returncode != 0:
            print(p.stdout[-3000:]); sys.exit(2)
        exe = os.path.join(tdir, "debug", "mv-harness")
        bindir = glob.glob(os.path.expanduser("~/.rustup/toolchains/nightly-x86_64-unknown-linux-gnu/lib/rustlib/*/bin"))[0]
        k = 0
        for pid in ids:
            P = props.PROPS[pid]
            if P.get("runner") == "conc":
                continue
            cases = P["gen"](tier, random.Random(20261001))
            groups = {}
            for line in cases:
                m = re.search(r"\bcpu=(\w+)", line)
                key = m.group(1) if m and m.group(1) in ("sse2", "none") else "host"
                groups.setdefault(key, []).append(line)
            for key, lines in groups.items():
                k += 1
                cp = os.path.join(scratch, f"{pid}.{key}.cases")
                vlib.write_cases(cp, lines)
                e2 = {"LLVM_PROFILE_FILE": os.path.join(scratch, f"p{k}-%p-%m.profraw")}
                if key != "host":
                    e2["MEMCHR_VERIF_CPU"] = key
                vlib.run_lines(exe, cp, env=e2)
                os.remove(cp)
            print(pid, len(cases), "cases", flush=True)
        raws = glob.glob(os.path.join(scratch, "*.profraw"))
        prof = os.path.join(scratch, "all.profdata")
        subprocess.run([os.path.join(bindir, "llvm-profdata"), "merge", "-sparse", "-o", prof] + raws, check=True)
        out = subprocess.run([os.path.join(bindir, "llvm-cov"), "show", exe, f"-instr-profile={prof}", "--show-line-counts-or-regions",
                              "--ignore-filename-regex=(harness|rustc|registry)"],
                             stdout=subprocess.PIPE, stderr=subprocess.PIPE, text=True).stdout
        rep = subprocess.run([os.path.join(bindir, "llvm-cov"), "report", exe, f"-instr-profile={prof}",
                              "--ignore-filename-regex=(harness|rustc|registry)"], stdout=subprocess.PIPE, stderr=subprocess.PIPE, text=True).stdout
        os.makedirs(os.path.join(vlib.BUILD, "coverage"), exist_ok=True)
        open(os.path.join(vlib.BUILD, "coverage", f"show-{tier}.txt"), "w").write(out)
        open(os.path.join(vlib.BUILD, "coverage", f"report-{tier}.txt"), "w").write(rep)
        print(rep[-6000:])
    finally:
        shutil.rmtree(scratch, ignore_errors=True)

if __name__ == "__main__":
    main()
