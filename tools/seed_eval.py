#!/usr/bin/env python3
"""Evaluate seeded changes: for each /verif/seeded/<id>/patch.diff apply it to the
repository copy in $VERIF_REPO (default /repo), run the given checks (default:
all registered) in quick mode, record which report a VIOLATION, and undo it.

usage: seed_eval.py [--checks C01,C05] <id> [<id> ...]
Writes /verif/seeded/<id>/results.json (or, when run from a snapshot, prints JSON).
"""
import json, os, subprocess, sys, time
sys.path.insert(0, os.path.dirname(os.path.abspath(__file__)))
VERIF = os.path.dirname(os.path.dirname(os.path.abspath(__file__)))
REPO = os.environ.get("VERIF_REPO", "/repo")

def sh(cmd, **kw):
    return subprocess.run(cmd, shell=True, stdout=subprocess.PIPE, stderr=subprocess.STDOUT, text=True, **kw)

def main():
    args = sys.argv[1:]
    checks = None
    if args and args[0] == "--checks":
        checks = args[1].split(","); args = args[2:]
    import props
    checks = checks or sorted(props.PROPS)
    seeded = os.environ.get("SEEDED_DIR", os.path.join(VERIF, "seeded"))
    out = {}
    for sid in args:
        patch = os.path.join(seeded, sid, "patch.diff")
        r = sh(f"git -C {REPO} status --porcelain -- src")
        if r.stdout.strip():
            print(f"{REPO} has local changes; refusing", file=sys.stderr); sys.exit(2)
        a = sh(f"git -C {REPO} apply {patch}")
        res = {"applied": a.returncode == 0, "checks": {}}
        if a.returncode != 0:
            res["apply_error"] = a.stdout[-500:]
        else:
            try:
                for c in checks:
                    t0 = time.time()
                    p = sh(f"{VERIF}/bin/check {c} quick", cwd=VERIF)
                    vio = [l for l in p.stdout.splitlines() if l.startswith("VIOLATION")]
                    detail = [l for l in p.stdout.splitlines() if l.startswith(("violation:", "broken", "  case:"))][:4]
                    res["checks"][c] = dict(rc=p.returncode, violation=vio[0] if vio else None,
                                            kind=("no-failing-input-found" if vio and "no-failing-input-found" in vio[0] else ("failing-input" if vio else None)),
                                            detail=[d[:300] for d in detail], wall=round(time.time() - t0, 1))
                    print(sid, c, p.returncode, (vio[0] if vio else "ok")[:120], flush=True)
            finally:
                sh(f"git -C {REPO} checkout -- .")
        out[sid] = res
        with open(os.path.join(seeded, sid, "results.json"), "w") as f:
            json.dump(res, f, indent=1)
    print(json.dumps({k: {c: v["kind"] for c, v in r["checks"].items() if v["kind"]} for k, r in out.items()}, indent=1))

if __name__ == "__main__":
    main()
