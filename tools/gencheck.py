#!/usr/bin/env python3
"""Translator validation: run the TRANSLATED functions (coq/Gen/Code*.v, through coq/Gen/Run.v) by
vm_compute on a sample of a check's own cases and compare with what the real crate printed for the same
cases.  A construct that tools/rs2coq.py mistranslated would show up here as a difference between the
generated Gallina and the Rust code it was generated from.  This is a test of the translator, not a proof."""
import os, re, subprocess, sys
sys.path.insert(0, os.path.dirname(os.path.abspath(__file__)))
import vlib

def nlist(hexstr):
    b = bytes.fromhex(hexstr)
    return "[" + "; ".join(str(x) for x in b) + "]%N" if b else "(@nil N)"

RANK = {"": "default_rank", "default": "default_rank", "id": "rk_id", "const0": "(rk_const 0%N)",
        "const255": "(rk_const 255%N)", "rev": "rk_rev"}

def term(op, kv):
    if op == "pair" and kv.get("rank", "") in RANK and len(kv.get("x", "")) <= 1300:
        return f"gc_pair (rs_Pair_with_ranker {nlist(kv.get('x', ''))} {RANK[kv.get('rank', '')]})"
    if op == "pairidx":
        return f"gc_pair (rs_Pair_with_indices {nlist(kv.get('x', ''))} {int(kv['i1'])}%N {int(kv['i2'])}%N)"
    if op == "prestate":
        ops = "[" + "; ".join("PE" if t == "E" else f"PU {int(t[1:])}%N" for t in kv["ops"].split(",") if t) + "]"
        return f"gc_prestate (mkPrefilterState {int(kv['skips'])}%N {int(kv['skipped'])}%N) {ops} []"
    if op in ("twnew", "twrnew") and 0 < len(kv.get("x", "")) <= 600 and not any(k in kv for k in ("an", "fln")):
        return f"gc_{op} {nlist(kv['x'])}"
    if op == "mmiter" and len(kv.get("h", "")) <= 400 and len(kv.get("x", "")) <= 80 and int(kv.get("k", "0")) <= 30 \
            and not any(k in kv for k in ("own", "al", "fl", "fln")):
        if kv.get("dir") == "r":
            return f"gc_riter {int(kv['k'])} {nlist(kv.get('x', ''))} {nlist(kv.get('h', ''))} (Some {len(kv.get('h', '')) // 2}%N)"
        return f"gc_fiter {int(kv['k'])} {nlist(kv.get('x', ''))} {nlist(kv.get('h', ''))} 0%N"
    if op in ("rknew", "rkrnew") and len(kv.get("x", "")) <= 1300:
        return f"gc_{op} {nlist(kv.get('x', ''))}"
    return None

def expect(op, res):
    """the implementation's output as the list Run.v prints, or None when it is not comparable"""
    if res.startswith("Panic") or res.startswith("CRASH"):
        return [2]
    if op in ("pair", "pairidx"):
        if res == "None":
            return [0]
        m = re.fullmatch(r"Some\((\d+),(\d+)\)", res)
        return [1, int(m.group(1)), int(m.group(2))] if m else None
    if op == "prestate":
        m = re.fullmatch(r"([tf]*)\|(\d+),(\d+)", res)
        return [1] + [1 if c == "t" else 0 for c in m.group(1)] + [9, int(m.group(2)), int(m.group(3))] if m else None
    if op == "mmiter":
        out = []
        for item in ([] if res in ("", "-") else res.split(";")):
            if ":" in item:
                hint, it = item.split(":")
                lo, hi = hint.split("-")
                out += [int(lo), 2 ** 64 if hi == "inf" else int(hi)]
            else:
                it = item
            m = re.fullmatch(r"Some\((\d+)\)", it)
            if m:
                out += [1, int(m.group(1))]
            elif it == "None":
                out += [0, 0]
            else:
                return None
        return out
    if op in ("rknew", "rkrnew"):
        m = re.search(r"hash: Hash\((\d+)\), hash_2pow: (\d+)", res)
        return [1, int(m.group(1)), int(m.group(2))] if m else None
    if op in ("twnew", "twrnew"):
        m = re.search(r"ApproximateByteSet\((\d+)\), critical_pos: (\d+), shift: (Small|Large) \{ (?:period|shift): (\d+) \}", res)
        return [1, int(m.group(1)), int(m.group(2)), 0 if m.group(3) == "Small" else 1, int(m.group(4))] if m else None
    return None

def crosscheck(pid, cases, impl_rows, max_cases=120, timeout=600):
    picked = []
    for i, line in enumerate(cases):
        op, kv = vlib.parse_case(line)
        t = term(op, kv)
        if t is None:
            continue
        res = vlib.canon_res(impl_rows[i][0])
        if op in ("pair", "pairidx", "twnew", "twrnew") and res.startswith("Panic"):
            pass
        e = expect(op, impl_rows[i][0] if op in ("twnew", "twrnew", "prestate", "rknew", "rkrnew", "mmiter") else res)
        if e is None:
            continue
        picked.append((i, t, e))
    if not picked:
        return dict(evaluated=0, mismatches=[], error=None, ops={})
    byop = {}
    for it in picked:
        byop.setdefault(cases[it[0]].split(" ", 1)[0], []).append(it)
    per = max(1, max_cases // len(byop))
    picked = []
    for op_, items in sorted(byop.items()):
        step = max(1, len(items) // per)
        picked += items[::step][:per]
    picked.sort(key=lambda it: it[0])
    path = os.path.join(vlib.CASES, f"gc_{pid}_{os.getpid()}.v")
    os.makedirs(vlib.CASES, exist_ok=True)
    with open(path, "w") as f:
        f.write("From Coq Require Import List NArith.\nImport ListNotations.\n")
        f.write("From Memchr Require Import Params Sub.Pair Gen.Ops Gen.CodePair Gen.CodePrefilter Gen.Run.\n")
        for (_, t, _) in picked:
            f.write(f"Eval vm_compute in ({t}).\n")
    try:
        p = subprocess.run(["coqc", "-noglob", "-Q", vlib.COQ, "Memchr", path], stdout=subprocess.PIPE,
                           stderr=subprocess.STDOUT, text=True, timeout=timeout)
        out, rc = p.stdout, p.returncode
    except subprocess.TimeoutExpired:
        out, rc = "TIMEOUT", 124
    finally:
        for ext in (".v", ".vo", ".vos", ".vok", ".glob"):
            try:
                os.remove(path[:-2] + ext)
            except OSError:
                pass
    if rc != 0:
        return dict(evaluated=0, mismatches=[], error=out[-600:], ops={})
    lists = []
    for m in re.finditer(r"=\s*\[([^\]]*)\]\s*:\s*list N", out.replace("\n", " ")):
        lists.append([int(x.replace("%N", "")) for x in m.group(1).split(";") if x.strip()])
    if len(lists) != len(picked):
        return dict(evaluated=0, mismatches=[], error=f"{len(lists)} results for {len(picked)} terms: {out[-300:]}", ops={})
    mism, ops = [], {}
    for (i, t, e), got in zip(picked, lists):
        op = cases[i].split(" ", 1)[0]
        ops[op] = ops.get(op, 0) + 1
        if got != e:
            mism.append(f"case {cases[i][:200]}: implementation {e}, translated code {got}")
    return dict(evaluated=len(picked), mismatches=mism, error=None, ops=ops)
