#!/usr/bin/env python3
"""Analysis tool (not a check): push every archived seeded change through the translator and the tie lemmas.
For each seeded/<id>/patch.diff: apply it to a scratch copy of /repo/src, run tools/rs2coq.py, and for every
group whose generated Coq term changed re-compile Gen/Tie<Group>.v in a scratch copy of coq/.  Writes
seeded/tie_sweep.json: which changes leave the translated subset (translator fails closed), which change a
generated term, and whether the tie lemma still checks for the changed term (it must not)."""
import os, subprocess, shutil, glob, sys, tempfile, json, re
VERIF = os.path.dirname(os.path.dirname(os.path.abspath(__file__)))
base = tempfile.mkdtemp(prefix="tiesweep")
shutil.copytree(os.path.join(VERIF, "coq"), base + "/coq")
shutil.copytree("/repo/src", base + "/src")
def gen(repo, outdir, groups=None):
    cmd = [sys.executable, os.path.join(VERIF, "tools", "rs2coq.py"), "--repo", repo, "--outdir", outdir]
    if groups:
        cmd += ["--groups", ",".join(groups)]
    return subprocess.run(cmd, stdout=subprocess.PIPE, stderr=subprocess.STDOUT, text=True).stdout
ref = base + "/ref"; gen(base, ref)
res = {}
for pd in sorted(glob.glob(os.path.join(VERIF, "seeded", "*", "patch.diff"))):
    sid = pd.split("/")[-2]
    shutil.rmtree(base + "/src"); shutil.copytree("/repo/src", base + "/src")
    if subprocess.run(["patch", "-p1", "-s", "-d", base, "-i", pd], stdout=subprocess.PIPE, stderr=subprocess.STDOUT).returncode != 0:
        continue
    out = base + "/out"; shutil.rmtree(out, ignore_errors=True)
    log = gen(base, out)
    left = sorted(set(l.split("group=")[1].split(":")[0] for l in log.splitlines() if "TIE BROKEN" in l))
    changed = [f[4:-2] for f in sorted(os.listdir(ref))
               if os.path.exists(out + "/" + f) and open(out + "/" + f).read() != open(ref + "/" + f).read()]
    if not left and not changed:
        continue
    entry = dict(left_subset=left, term_changed={})
    for g in changed:
        shutil.copy(f"{out}/Code{g}.v", f"{base}/coq/Gen/Code{g}.v")
        vo = f"{base}/coq/Gen/Tie{g}.vo"
        if os.path.exists(vo):
            os.remove(vo)
        r = subprocess.run(["make", "-f", "Makefile.coq", "-j8", f"Gen/Tie{g}.vo"], cwd=base + "/coq",
                           stdout=subprocess.PIPE, stderr=subprocess.STDOUT, text=True)
        ok = r.returncode == 0 and os.path.exists(vo)
        m = re.search(r'File "\./(Gen/\w+\.v)", line (\d+)', r.stdout)
        entry["term_changed"][g] = "TIE STILL PROVES" if ok else ("tie broken at " + (f"{m.group(1)}:{m.group(2)}" if m else "?"))
        shutil.copy(f"{ref}/Code{g}.v", f"{base}/coq/Gen/Code{g}.v")
    res[sid] = entry
shutil.rmtree(base)
json.dump(res, open(os.path.join(VERIF, "seeded", "tie_sweep.json"), "w"), indent=1)
n_left = sum(1 for v in res.values() if v["left_subset"])
n_ch = sum(len(v["term_changed"]) for v in res.values())
n_bad = sum(1 for v in res.values() for t in v["term_changed"].values() if t == "TIE STILL PROVES")
print(f"{len(res)} seeds touch translated functions: {n_left} leave the subset, {n_ch} changed terms, {n_bad} of them still prove")
