#!/usr/bin/env python3
"""Builds a scratch copy of the memchr crate in which the aarch64/NEON (or the
wasm32/simd128) code paths are compiled on this x86_64 host, with the vendor
intrinsics replaced by the software emulation in harness/emu/. The copy is a
textual translation of /repo's CURRENT working tree, made on every run.

usage: emu_build.py <neon|simd128> <scratch-dir> [--repo /repo]
Creates <scratch-dir>/memchr (the rewritten crate) and <scratch-dir>/harness (the
harness pointing at it). The caller deletes <scratch-dir>.
"""
import os, re, shutil, sys

VERIF = os.path.dirname(os.path.dirname(os.path.abspath(__file__)))

def rewrite(src, arch):
    s = src
    # the host architecture's code is compiled out
    s = s.replace('target_arch = "x86_64"', 'any()')
    if arch == "neon":
        s = s.replace('target_arch = "aarch64"', 'all()')
        s = s.replace('target_feature = "neon"', 'all()')
        s = s.replace('target_arch = "wasm32"', 'any()')
        s = s.replace("core::arch::aarch64", "crate::emu")
        s = re.sub(r'^\s*#\[target_feature\(enable = "neon"\)\]\n', "", s, flags=re.M)
    else:
        s = s.replace('target_arch = "wasm32"', 'all()')
        s = s.replace('target_feature = "simd128"', 'all()')
        s = s.replace('target_arch = "aarch64"', 'any()')
        s = s.replace("core::arch::wasm32", "crate::emu")
        s = re.sub(r'^\s*#\[target_feature\(enable = "simd128"\)\]\n', "", s, flags=re.M)
    return s

def main():
    arch, scratch = sys.argv[1], sys.argv[2]
    repo = "/repo"
    if "--repo" in sys.argv:
        repo = sys.argv[sys.argv.index("--repo") + 1]
    assert arch in ("neon", "simd128")
    crate = os.path.join(scratch, "memchr")
    os.makedirs(crate, exist_ok=True)
    for f in ("Cargo.toml", "Cargo.lock"):
        shutil.copy(os.path.join(repo, f), os.path.join(crate, f))
    shutil.copytree(os.path.join(repo, "src"), os.path.join(crate, "src"), dirs_exist_ok=True)
    n = 0
    for root, _, files in os.walk(os.path.join(crate, "src")):
        for f in files:
            if f.endswith(".rs"):
                p = os.path.join(root, f)
                txt = open(p).read()
                new = rewrite(txt, arch)
                if new != txt:
                    n += 1
                    open(p, "w").write(new)
    shutil.copy(os.path.join(VERIF, "harness", "emu", arch + ".rs"), os.path.join(crate, "src", "emu.rs"))
    lib = os.path.join(crate, "src", "lib.rs")
    txt = open(lib).read()
    txt = txt.replace("mod vector;", "mod vector;\n#[doc(hidden)]\npub mod emu;", 1)
    open(lib, "w").write(txt)
    # the harness, pointed at the rewritten crate
    h = os.path.join(scratch, "harness")
    shutil.copytree(os.path.join(VERIF, "harness", "src"), os.path.join(h, "src"), dirs_exist_ok=True)
    cargo = open(os.path.join(VERIF, "harness", "Cargo.toml")).read().replace('path = "/repo"', f'path = "{crate}"')
    open(os.path.join(h, "Cargo.toml"), "w").write(cargo)
    shutil.copy(os.path.join(repo, "Cargo.lock"), os.path.join(h, "Cargo.lock"))
    print(f"emu_build: {arch}: rewrote {n} files into {crate}")

if __name__ == "__main__":
    main()
