(* Driver for the extracted model: reads a case file, runs the same operation
   the Rust harness runs, prints the same canonical line. *)
open Extracted

let rec nat_of_int i = if i <= 0 then O else S (nat_of_int (i - 1))
let int_of_nat n = let rec go acc = function O -> acc | S m -> go (acc + 1) m in go 0 n
let rec pos_of_int i =
  if i = 1 then XH else if i land 1 = 1 then XI (pos_of_int (i lsr 1)) else XO (pos_of_int (i lsr 1))
let n_of_int i = if i = 0 then N0 else Npos (pos_of_int i)
let rec int_of_pos = function XH -> 1 | XO p -> 2 * int_of_pos p | XI p -> 2 * int_of_pos p + 1
let int_of_n = function N0 -> 0 | Npos p -> int_of_pos p

let unhex s =
  let d c = match c with
    | '0'..'9' -> Char.code c - 48 | 'a'..'f' -> Char.code c - 87
    | 'A'..'F' -> Char.code c - 55 | _ -> failwith "bad hex" in
  let n = String.length s / 2 in
  List.init n (fun i -> d s.[2*i] * 16 + d s.[2*i+1])

let parse line =
  let toks = List.filter (fun s -> s <> "") (String.split_on_char ' ' line) in
  match toks with
  | [] -> ("", [])
  | op :: rest ->
    let kv = List.filter_map (fun t ->
      match String.index_opt t '=' with
      | None -> None
      | Some i -> Some (String.sub t 0 i, String.sub t (i+1) (String.length t - i - 1))) rest in
    (op, kv)

let get kv k = try List.assoc k kv with Not_found -> ""
let num kv k = let s = get kv k in if s = "" then 0 else int_of_string s
let num_or kv k d = let s = get kv k in if s = "" then d else int_of_string s
let bytes kv k = List.map n_of_int (unhex (get kv k))

let verbatim = 96

let fmt_event = function
  | Load (r, off, w, al) ->
    Printf.sprintf "L%c%d:%d%c" (match r with RHay -> 'H' | RNeedle -> 'N')
      (int_of_nat off) (int_of_nat w) (if al then 'a' else 'u')
  | Tick k -> Printf.sprintf "T%d" (int_of_nat k)
  | Label l -> Printf.sprintf "B%d" (int_of_nat l)
  | Alloc -> "A"

let count_allocs (t : event list) = List.length (List.filter (fun e -> e = Alloc) t)

(* Alloc events are compared by the allocation probe (C17), not by the load/step trace *)
let fmt_trace (t : event list) =
  let toks = List.map fmt_event (List.filter (fun e -> e <> Alloc) t) in
  let n = List.length toks in
  if n = 0 then "-"
  else if n > verbatim then begin
    let h = ref 0xcbf29ce484222325L in
    List.iter (fun tok ->
      String.iter (fun c ->
        h := Int64.logxor !h (Int64.of_int (Char.code c));
        h := Int64.mul !h 0x100000001b3L) tok;
      h := Int64.logxor !h (Int64.of_int (Char.code ','));
      h := Int64.mul !h 0x100000001b3L) toks;
    let labels = List.filter (fun t -> String.length t > 0 && t.[0] = 'B') toks in
    let lab = if labels = [] then "" else ":" ^ String.concat "," labels in
    Printf.sprintf "#%d:%016Lx%s" (n - List.length labels) !h lab
  end else String.concat "," toks

let fmt_panic = function
  | OutOfFuel -> "OutOfFuel" | IndexOOB -> "IndexOOB" | SubUnderflow -> "SubUnderflow"
  | Overflow -> "Overflow" | AssertFail n -> Printf.sprintf "AssertFail%d" (int_of_nat n)
  | PtrOutOfSlice -> "PtrOutOfSlice" | ReadOOB -> "ReadOOB" | UnwrapNone -> "UnwrapNone"

(* Panics are printed as `Panic` (the Rust side cannot name the kind); the
   model's kind goes after a colon for diagnostics and is ignored by diff. *)
let fmt_res f = function
  | Ok v -> f v
  | Panic p -> "Panic:" ^ fmt_panic p

let fmt_opt_nat = function None -> "None" | Some i -> Printf.sprintf "Some(%d)" (int_of_nat i)
let fmt_opt_pair = function
  | None -> "None"
  | Some (a, b) -> Printf.sprintf "Some(%d,%d)" (int_of_nat a) (int_of_nat b)
let fmt_bool b = if b then "true" else "false"

let ranker spec : n -> n =
  if spec = "" || spec = "default" then default_rank
  else if spec = "const0" then (fun _ -> N0)
  else if spec = "const255" then (fun _ -> n_of_int 255)
  else if spec = "id" then (fun b -> b)
  else if spec = "rev" then (fun b -> n_of_int (255 - int_of_n b))
  else if String.length spec > 4 && String.sub spec 0 4 = "tbl:" then begin
    let t = Array.of_list (unhex (String.sub spec 4 (String.length spec - 4))) in
    (fun b -> n_of_int t.(int_of_n b))
  end else failwith ("unknown ranker " ^ spec)

let backend_of be cpu =
  match be with
  | "swar" -> BSwar | "sse2" -> BSse2 | "avx2" -> BAvx2 | "neon" -> BNeon | "simd128" -> BSimd128
  | "top" -> (match cpu with
      | "neon" -> BNeon | "simd128" -> BSimd128
      | _ -> x86_choice (match cpu with "sse2" -> Sse2Only | "none" -> NoSimd | _ -> HasAvx2))
  | _ -> failwith ("unknown backend " ^ be)

let arch_of cpu =
  match cpu with
  | "neon" -> AAarch64
  | "simd128" -> AWasm
  | _ -> AX86 (match cpu with "sse2" -> Sse2Only | "none" -> NoSimd | _ -> HasAvx2)

(* decimal printing of N (may exceed OCaml's int for the 64-bit byte set) *)
let string_of_n (v : n) : string =
  match v with
  | N0 -> "0"
  | Npos p ->
    (* collect bits, then repeated division by 10 on a big-endian bit list *)
    let rec bits p acc = match p with XH -> 1 :: acc | XO q -> bits q (0 :: acc) | XI q -> bits q (1 :: acc) in
    let b = ref (bits p []) in   (* most significant first *)
    let digits = Buffer.create 20 in
    let is_zero l = List.for_all (fun x -> x = 0) l in
    let out = ref [] in
    while not (is_zero !b) do
      let rem = ref 0 in
      let q = List.map (fun bit -> let v = !rem * 2 + bit in rem := v mod 10; v / 10) !b in
      out := !rem :: !out; b := q
    done;
    List.iter (fun d -> Buffer.add_string digits (string_of_int d)) !out;
    Buffer.contents digits

let shared_needle : n list ref = ref []

let run_case op kv : string * string =
  match op with
  | "sharedneedle" -> shared_needle := bytes kv "x"; ("#", "-")
  | "sfind" | "srfind" | "siter" ->
    let x = !shared_needle and h = bytes kv "h" in
    let ar = arch_of (get kv "cpu") in
    if op = "sfind" then
      (match finder_new PAuto default_rank ar x with
       | (Ok f, _) -> let (r, _) = finder_find ar f O h in (fmt_res fmt_opt_nat r, "-")
       | (Panic p, _) -> ("Panic:" ^ fmt_panic p, "-"))
    else if op = "srfind" then
      (match rfinder_new x with
       | (Ok f, _) -> let (r, _) = rfinder_rfind ar f O h in (fmt_res fmt_opt_nat r, "-")
       | (Panic p, _) -> ("Panic:" ^ fmt_panic p, "-"))
    else if get kv "dir" = "r" then
      (match rfinder_new x with
       | (Ok f, _) -> let (r, _) = riter_run ar f O h (nat_of_int (num kv "k")) (riter_new h) in
         (fmt_res (fun outs -> String.concat ";" (List.map fmt_opt_nat outs)) r, "-")
       | (Panic p, _) -> ("Panic:" ^ fmt_panic p, "-"))
    else
      (match finder_new PAuto default_rank ar x with
       | (Ok f, _) -> let (r, _) = fiter_run ar f O h (nat_of_int (num kv "k")) fiter_new in
         (fmt_res (fun outs -> String.concat ";" (List.map (fun (o, _) -> fmt_opt_nat o) outs)) r, "-")
       | (Panic p, _) -> ("Panic:" ^ fmt_panic p, "-"))
  | "iseq" | "ispre" | "issuf" ->
    let x = bytes kv "x" and y = bytes kv "y" in
    let (r, t) = (match op with
      | "iseq" -> is_equal x y | "ispre" -> is_prefix x y | _ -> is_suffix x y) in
    (fmt_res fmt_bool r, fmt_trace t)
  | "pair" ->
    let x = bytes kv "x" in
    let (r, t) = pair_with_ranker (ranker (get kv "rank")) x in
    (fmt_res fmt_opt_pair r, fmt_trace t)
  | "pairidx" ->
    let x = bytes kv "x" in
    let r = pair_with_indices x (nat_of_int (num kv "i1")) (nat_of_int (num kv "i2")) in
    (fmt_opt_pair r, "-")
  | ("find" | "rfind" | "count") when get kv "raw" = "1" ->
    (* raw-pointer forms: Mem/Wrappers.v backend_*_raw (start >= end gives None / 0 without any load) *)
    let ns = bytes kv "ns" and h = bytes kv "h" in
    let so = nat_of_int (num kv "so") and eo = nat_of_int (num kv "eo") in
    let a = nat_of_int (num kv "a") in
    let be = backend_of (get kv "be") (get kv "cpu") in
    (match op with
     | "find" -> let (r, t) = backend_find_raw ns a h so eo be in (fmt_res fmt_opt_nat r, fmt_trace t)
     | "rfind" -> let (r, t) = backend_rfind_raw ns a h so eo be in (fmt_res fmt_opt_nat r, fmt_trace t)
     | _ -> let (r, t) = backend_count_raw ns a h so eo be in (fmt_res (fun n -> string_of_int (int_of_nat n)) r, fmt_trace t))
  | "avail" ->
    (* availability of the x86 backends as a function of the detection outcome *)
    let ok = (match get kv "isa", get kv "cpu" with
      | "avx2", ("sse2" | "none") -> false
      | "sse2", "none" -> false
      | _ -> true) in
    ((if ok then "1111" else "0000"), "-")
  | "pppair" when num kv "i1" = 255 && num kv "i2" = 255 ->
    (* Finder::new(needle): Pair::new with the default ranker *)
    let x = bytes kv "x" in
    let (r, _) = pair_with_ranker default_rank x in
    (match r with
     | Ok None -> ("NoPair", "-")
     | Ok (Some (a, b)) -> (fmt_opt_pair (Some (a, b)), "-")
     | Panic p -> ("Panic:" ^ fmt_panic p, "-"))
  | "pppair" ->
    let x = bytes kv "x" in
    (match pair_with_indices x (nat_of_int (num kv "i1")) (nat_of_int (num kv "i2")) with
     | None -> ("NoPair", "-")
     | Some (i1, i2) ->
       if get kv "isa" = "portable" then
         (match pf_new x i1 i2 with
          | Panic p -> ("Panic:" ^ fmt_panic p, "-")
          | Ok f -> (fmt_opt_pair (Some (f.pf_i1, f.pf_i2)), "-"))
       else
         let isa = (match get kv "isa" with "sse2" -> PSse2 | "avx2" -> PAvx2 | "neon" -> PNeon | "simd128" -> PSimd128 | s -> failwith s) in
         (match pw_new isa x i1 i2 with
          | Panic p -> ("Panic:" ^ fmt_panic p, "-")
          | Ok w -> (fmt_opt_pair (Some (w.pw_big.pp_i1, w.pw_big.pp_i2)), "-")))
  | "find" | "rfind" | "count" ->
    let ns = bytes kv "ns" and h = bytes kv "h" in
    let a = nat_of_int (num kv "a") in
    let be = backend_of (get kv "be") (get kv "cpu") in
    (match op with
     | "find" -> let (r, t) = backend_find ns a h be in (fmt_res fmt_opt_nat r, fmt_trace t)
     | "rfind" -> let (r, t) = backend_rfind ns a h be in (fmt_res fmt_opt_nat r, fmt_trace t)
     | _ -> let (r, t) = backend_count ns a h be in (fmt_res (fun n -> string_of_int (int_of_nat n)) r, fmt_trace t))
  | "iter" ->
    let ns = bytes kv "ns" and h = bytes kv "h" in
    let a = nat_of_int (num kv "a") in
    let be = backend_of (get kv "be") (get kv "cpu") in
    let rev = get kv "rev" = "1" in
    let ops = List.map (fun c -> match c with
      | 'N' -> if rev then OBack else ONext | 'B' -> if rev then ONext else OBack
      | 'S' -> OHint | 'C' -> OCount | _ -> failwith "bad iter op")
      (List.init (String.length (get kv "ops")) (String.get (get kv "ops"))) in
    let (r, t) = iter_run be ns a h ops (iter_new h) in
    let fmt_out = function
      | RItem o -> fmt_opt_nat o
      | RHint (lo, hi) -> Printf.sprintf "%d-%d" (int_of_nat lo) (int_of_nat hi)
      | RCount n -> string_of_int (int_of_nat n) in
    (fmt_res (fun outs -> if outs = [] then "-" else String.concat ";" (List.map fmt_out outs)) r, fmt_trace t)
  | "rkfind" | "rkrfind" ->
    let x = bytes kv "x" and h = bytes kv "h" in
    let nx = if get kv "nx" = "" then x else bytes kv "nx" in
    if op = "rkfind" then let (r, t) = rk_find (rk_new nx) x h in (fmt_res fmt_opt_nat r, fmt_trace t)
    else let (r, t) = rk_rfind (rk_new_rev nx) x h in (fmt_res fmt_opt_nat r, fmt_trace t)
  | "sofind" ->
    let x = bytes kv "x" and h = bytes kv "h" in
    let (f, t1) = so_new x in
    (match f with
     | Panic p -> ("Panic:" ^ fmt_panic p, fmt_trace t1)
     | Ok None -> ("Unsupported", fmt_trace t1)
     | Ok (Some f) -> let (r, t) = so_find f h in (fmt_res fmt_opt_nat r, fmt_trace (t1 @ t)))
  | "ppfind" | "ppprefilter" ->
    let x = bytes kv "x" and h = bytes kv "h" in
    let fx = if get kv "fx" = "" then x else bytes kv "fx" in
    let isa = (match get kv "isa" with "sse2" -> PSse2 | "avx2" -> PAvx2 | "neon" -> PNeon | "simd128" -> PSimd128 | s -> failwith s) in
    (match pair_with_indices x (nat_of_int (num kv "i1")) (nat_of_int (num kv "i2")) with
     | None -> ("NoPair", "-")
     | Some (i1, i2) ->
       (match pw_new isa x i1 i2 with
        | Panic p -> ("Panic:" ^ fmt_panic p, "-")
        | Ok w ->
          let (r, t) = if op = "ppfind" then pw_find w h fx else pw_find_prefilter w h in
          (Printf.sprintf "min=%d:%s" (int_of_nat (pw_min w)) (fmt_res fmt_opt_nat r), fmt_trace t)))
  | "pfprefilter" ->
    let x = bytes kv "x" and h = bytes kv "h" in
    let cpu = backend_of "top" (get kv "cpu") in
    (match pair_with_indices x (nat_of_int (num kv "i1")) (nat_of_int (num kv "i2")) with
     | None -> ("NoPair", "-")
     | Some (i1, i2) ->
       (match pf_new x i1 i2 with
        | Panic p -> ("Panic:" ^ fmt_panic p, "-")
        | Ok f -> let (r, t) = pf_find_prefilter cpu f (nat_of_int (num kv "a")) h in (fmt_res fmt_opt_nat r, fmt_trace t)))
  | "rknew" | "rkrnew" ->
    let x = bytes kv "x" in
    let f = if op = "rknew" then rk_new x else rk_new_rev x in
    let body = Printf.sprintf "Finder { hash: Hash(%s), hash_2pow: %s }" (string_of_n f.rk_hash) (string_of_n f.rk_2pow) in
    ((if op = "rknew" then body else "FinderRev(" ^ body ^ ")"), "-")
  | "twnew" | "twrnew" ->
    let x = bytes kv "x" in
    let (r, t) = if op = "twnew" then tw_new x else tw_new_rev x in
    (fmt_res (fun tw ->
       Printf.sprintf "%s(TwoWay { byteset: ApproximateByteSet(%s), critical_pos: %d, shift: %s })"
         (if op = "twnew" then "Finder" else "FinderRev") (string_of_n tw.tw_byteset) (int_of_nat tw.tw_cp)
         (match tw.tw_shift with
          | Small p -> Printf.sprintf "Small { period: %d }" (int_of_nat p)
          | Large s -> Printf.sprintf "Large { shift: %d }" (int_of_nat s))) r, fmt_trace t)
  | "hist" ->
    let x = bytes kv "x" in
    let hs = Array.of_list (List.map (fun s -> List.map n_of_int (unhex s)) (String.split_on_char ',' (get kv "hs"))) in
    let a = nat_of_int (num kv "a") in
    let ar = arch_of (get kv "cpu") in
    let cfg = if get kv "cfg" = "none" then PNone else PAuto in
    let toks = List.filter (fun s -> s <> "") (String.split_on_char ',' (get kv "ops")) in
    let (f, t1) = finder_new cfg (ranker (get kv "rank")) ar x in
    let (rf, t2) = rfinder_new x in
    (match f, rf with
     | Ok f, Ok rf ->
       let trace = ref (t1 @ t2) in
       let outs = ref [] in
       let fit = ref None and rit = ref None in
       let arg t = int_of_string (String.sub t 1 (String.length t - 1)) in
       let panic = ref None in
       List.iter (fun t ->
         if !panic = None then
         match t.[0] with
         | 'F' | 'A' | 'P' -> let (r, tr) = finder_find ar f a hs.(arg t) in trace := !trace @ tr;
           (match r with Ok o -> outs := fmt_opt_nat o :: !outs | Panic p -> panic := Some p)
         | 'R' | 'Q' -> let (r, tr) = rfinder_rfind ar rf a hs.(arg t) in trace := !trace @ tr;
           (match r with Ok o -> outs := fmt_opt_nat o :: !outs | Panic p -> panic := Some p)
         | 'C' | 'O' | 'K' | 'W' | 'L' | 'V' -> ()
         | 'D' -> outs := "true" :: !outs
         | 'I' -> fit := Some (arg t, fiter_new)
         | 'J' -> rit := Some (arg t, riter_new hs.(arg t))
         | 'N' -> (match !fit with
             | None -> outs := "NoIter" :: !outs
             | Some (i, it) -> let (r, tr) = fiter_next ar f a hs.(i) it in trace := !trace @ tr;
               (match r with Ok (o, it') -> outs := fmt_opt_nat o :: !outs; fit := Some (i, it') | Panic p -> panic := Some p))
         | 'S' -> (match !fit with
             | None -> outs := "NoIter" :: !outs
             | Some (i, it) -> let (lo, hi) = fiter_size_hint f hs.(i) it in
               outs := Printf.sprintf "%d-%d" (int_of_nat lo) (int_of_nat hi) :: !outs)
         | 'M' -> (match !rit with
             | None -> outs := "NoIter" :: !outs
             | Some (i, it) -> let (r, tr) = riter_next ar rf a hs.(i) it in trace := !trace @ tr;
               (match r with Ok (o, it') -> outs := fmt_opt_nat o :: !outs; rit := Some (i, it') | Panic p -> panic := Some p))
         | _ -> outs := "BadOp" :: !outs) toks;
       (match !panic with
        | Some p -> ("Panic:" ^ fmt_panic p, "-")
        | None -> (String.concat ";" (List.rev !outs), "-"))
     | Panic p, _ | _, Panic p -> ("Panic:" ^ fmt_panic p, "-"))
  | "alloc" ->
    let x = bytes kv "x" and h = bytes kv "h" in
    let a = nat_of_int (num kv "a") in
    let ar = arch_of (get kv "cpu") in
    let cfg = if get kv "cfg" = "none" then PNone else PAuto in
    let b1 = (match x with b :: _ -> b | [] -> N0) in
    let b2 = (match x with _ :: b :: _ -> b | _ -> n_of_int 1) in
    let b3 = (match x with _ :: _ :: b :: _ -> b | _ -> n_of_int 2) in
    let top = x86_choice (match get kv "cpu" with "sse2" -> Sse2Only | "none" -> NoSimd | _ -> HasAvx2) in
    let cnt t = string_of_int (count_allocs t) in
    (match get kv "what" with
     | "memchr" -> let (_, t) = backend_find [b1] a h top in (cnt t, "-")
     | "memrchr" -> let (_, t) = backend_rfind [b1] a h top in (cnt t, "-")
     | "memchr2" -> let (_, t) = backend_find [b1; b2] a h top in (cnt t, "-")
     | "memrchr2" -> let (_, t) = backend_rfind [b1; b2] a h top in (cnt t, "-")
     | "memchr3" -> let (_, t) = backend_find [b1; b2; b3] a h top in (cnt t, "-")
     | "memrchr3" -> let (_, t) = backend_rfind [b1; b2; b3] a h top in (cnt t, "-")
     | "mm_find" -> let (_, t) = memmem_find ar a h x in (cnt t, "-")
     | "mm_rfind" -> let (_, t) = memmem_rfind ar a h x in (cnt t, "-")
     | "finder_new_find" ->
       let (f, t1) = finder_new cfg (ranker (get kv "rank")) ar x in
       (match f with Ok f -> let (_, t2) = finder_find ar f a h in
                       let (_, t3) = fiter_run ar f a h (nat_of_int (List.length h + 2)) fiter_new in
                       (cnt (t1 @ t2 @ t3), "-")
                   | Panic p -> ("Panic:" ^ fmt_panic p, "-"))
     | "rfinder_new_rfind" ->
       let (f, t1) = rfinder_new x in
       (match f with Ok f -> let (_, t2) = rfinder_rfind ar f a h in (cnt (t1 @ t2), "-")
                   | Panic p -> ("Panic:" ^ fmt_panic p, "-"))
     | "shiftor_new" -> let (_, t) = so_new x in (cnt t, "-")
     | "shiftor_find" ->
       (match so_new x with
        | (Ok (Some f), _) -> let (_, t) = so_find f h in (cnt t, "-")
        | _ -> ("0", "-"))
     | _ -> ("n/a", "-"))
  | "prestate" ->
    let st0 = { ps_skips = n_of_int (num kv "skips"); ps_skipped = n_of_int (num kv "skipped") } in
    let ops = List.filter (fun s -> s <> "") (String.split_on_char ',' (get kv "ops")) in
    let rec go st ops outs =
      match ops with
      | [] -> Printf.sprintf "%s|%d,%d" (String.concat "" (List.rev outs)) (int_of_n st.ps_skips) (int_of_n st.ps_skipped)
      | "E" :: rest ->
        (match pre_is_effective st with
         | Panic p -> "Panic:" ^ fmt_panic p
         | Ok (b, st') -> go st' rest ((if b then "t" else "f") :: outs))
      | u :: rest ->
        let n = int_of_string (String.sub u 1 (String.length u - 1)) in
        go (pre_update st (nat_of_int n)) rest outs in
    (go st0 ops [], "-")
  | "twcert" ->
    let x = bytes kv "x" in
    (Printf.sprintf "fwd=%b,rev=%b" (tw_cert_fwd_of x) (tw_cert_rev_of x), "-")
  | "twfind" | "twrfind" ->
    let x = bytes kv "x" and h = bytes kv "h" in
    let fx = if get kv "fx" = "" then x else bytes kv "fx" in
    if op = "twfind" then begin
      let (r, t1) = tw_new x in
      match r with
      | Panic p -> ("Panic:" ^ fmt_panic p, fmt_trace t1)
      | Ok tw -> let (r2, t2) = tw_find tw None (nat_of_int (num kv "a")) h fx prestate_new in
        (fmt_res (fun (o, _) -> fmt_opt_nat o) r2, fmt_trace (t1 @ t2))
    end else begin
      let (r, t1) = tw_new_rev x in
      match r with
      | Panic p -> ("Panic:" ^ fmt_panic p, fmt_trace t1)
      | Ok tw -> let (r2, t2) = tw_rfind tw h fx in (fmt_res fmt_opt_nat r2, fmt_trace (t1 @ t2))
    end
  | "mm" ->
    let x = bytes kv "x" and h = bytes kv "h" in
    let a = nat_of_int (num kv "a") in
    let ar = arch_of (get kv "cpu") in
    let cfg = if get kv "cfg" = "none" then PNone else PAuto in
    (match get kv "f" with
     | "top" -> let (r, t) = memmem_find ar a h x in (fmt_res fmt_opt_nat r, fmt_trace t)
     | "rtop" -> let (r, t) = memmem_rfind ar a h x in (fmt_res fmt_opt_nat r, fmt_trace t)
     | "find" ->
       let (f, t1) = finder_new cfg (ranker (get kv "rank")) ar x in
       (match f with
        | Panic p -> ("Panic:" ^ fmt_panic p, fmt_trace t1)
        | Ok f -> let (r, t2) = finder_find ar f a h in (fmt_res fmt_opt_nat r, fmt_trace (t1 @ t2)))
     | "rfind" ->
       let (f, t1) = rfinder_new x in
       (match f with
        | Panic p -> ("Panic:" ^ fmt_panic p, fmt_trace t1)
        | Ok f -> let (r, t2) = rfinder_rfind ar f a h in (fmt_res fmt_opt_nat r, fmt_trace (t1 @ t2)))
     | _ -> ("BadCase", "-"))
  | "mmiter" ->
    let x = bytes kv "x" and h = bytes kv "h" in
    let a = nat_of_int (num kv "a") in
    let ar = arch_of (get kv "cpu") in
    let cfg = if get kv "cfg" = "none" then PNone else PAuto in
    let k = nat_of_int (num kv "k") in
    if get kv "dir" = "r" then begin
      let (f, t1) = rfinder_new x in
      match f with
      | Panic p -> ("Panic:" ^ fmt_panic p, fmt_trace t1)
      | Ok f -> let (r, t2) = riter_run ar f a h k (riter_new h) in
        (fmt_res (fun outs -> String.concat ";" (List.map fmt_opt_nat outs)) r, fmt_trace (t1 @ t2))
    end else begin
      let (f, t1) = finder_new cfg (ranker (get kv "rank")) ar x in
      match f with
      | Panic p -> ("Panic:" ^ fmt_panic p, fmt_trace t1)
      | Ok f -> let (r, t2) = fiter_run ar f a h k fiter_new in
        (fmt_res (fun outs -> String.concat ";" (List.map (fun (o, (lo, hi)) ->
            Printf.sprintf "%d-%d:%s" (int_of_nat lo) (int_of_nat hi) (fmt_opt_nat o)) outs)) r, fmt_trace (t1 @ t2))
    end
  | _ -> ("UnknownOp", "-")

let () =
  let file = Sys.argv.(1) in
  let ic = open_in file in
  let i = ref 0 in
  (try
    while true do
      let line = String.trim (input_line ic) in
      if line = "" || line.[0] = '#' then Printf.printf "%d\t#\t-\n" !i
      else begin
        let (op, kv) = parse line in
        let (r, t) = run_case op kv in
        Printf.printf "%d\t%s\t%s\n" !i r t
      end;
      incr i
    done
  with End_of_file -> ());
  close_in ic
