# /verif top-level: `make setup` builds everything the checks need, offline.
SHELL := /bin/sh
.PHONY: setup coq model harness clean

setup: coq model harness

coq:
	mkdir -p build
	python3 tools/gen_params.py --repo /repo --out coq/Params.v --json build/params.json
	python3 tools/rs2coq.py --repo /repo --outdir coq/Gen
	cd coq && coq_makefile -f _CoqProject -o Makefile.coq
	cd coq && timeout 3000 $(MAKE) -f Makefile.coq -j16 -k

model: coq
	python3 -c "import sys; sys.path.insert(0,'tools'); import vlib; ok,msg=vlib.build_model(); print(msg); sys.exit(0 if ok else 1)"

harness:
	python3 -c "import sys; sys.path.insert(0,'tools'); import vlib; \
cfgs=[('debug',True,None,''),('release',True,None,''),('release',False,None,''),('release',False,['alloc'],''),('release',False,[],''),('release',True,None,'-Ctarget-feature=+avx2'),('release',False,[],'-Ctarget-feature=+avx2')]; \
r=[vlib.harness_build(profile=p, hooks=h, features=f, extra_rustflags=x) for (p,h,f,x) in cfgs]; \
[print(x[1][-2000:]) for x in r]; sys.exit(0 if all(x[0] for x in r) else 1)"

clean:
	rm -rf build
	cd coq && (test -f Makefile.coq && $(MAKE) -f Makefile.coq clean || true)
